"""C06 — the D-set generator enumerates every isomorphism class exactly once."""
import json
from vlib import Violation, ToolError, log

RULE = ("one history per (dimension, size bound): header, every emitted D-set, end; the End action compares the "
        "canonical forms seen with the classes of the universe of all tuples of involutions enumerated by TLC "
        "(first operation up to conjugacy, lemma MC_SetClasses); "
        "non-trivial = distinct emitted D-set with >= 2 chambers")


def run(ctx):
    ctx.build()
    ctx.assume("classes are keyed by the specification's own canonical form of D-sets (CanonSet), a complete "
               "invariant by construction; its symbol version is model-checked in MC_Canon")
    # the generic backtracking iterator (shared with C07 and C12): machine model-checked on every tree with <= 5 (6) nodes,
    # then every tree with <= 6 (7) nodes replayed through the real BackTrackIterator
    ctx.mc("MC_BackTrack", cfg="MC_BackTrack" if ctx.quick else "MC_BackTrack_6", workers=12,
           universe="BackTrack machine on every tree with <= %d nodes and every extract pattern" % (5 if ctx.quick else 6))
    p, n = ctx.gen("Gen_BackTrack", "trees.ndjson", cfg="Gen_BackTrack" if ctx.quick else "Gen_BackTrack_t")
    out = ctx.dsv("C06", "backtrack", p)
    r = json.loads(out.strip().splitlines()[-1])
    ctx.evaluations += r["comparisons"]
    ctx.traces += r["cases"]
    ctx.nontrivial_extra += r["nontrivial"]
    ctx.notes.extend(r["conformance"])
    ctx.exhaustive_universes.append(f"every rooted ordered tree of Gen_BackTrack ({n} cases) through BackTrackIterator")
    if r["mismatches"]:
        m = r["mismatches"][0]
        case = m.pop("case")
        raise Violation(f"BackTrackIterator does not yield every extractable node exactly once: {json.dumps(m)[:300]}",
                        replay_lines=[json.dumps(case)], replay_name="tree.ndjson")
    # the universe of Trace_C06 fixes the first operation up to conjugacy; the lemma that this loses no class
    ctx.mc("MC_SetClasses", cfg="MC_SetClasses" if ctx.quick else "MC_SetClasses_t", workers=12,
           universe="classes of all tuples of involutions = classes of tuples with normal-form first operation, n <= %s (dim 1,2,3)" % ("6,5,4" if ctx.quick else "7,6,5"))
    # "u" runs lie beyond the universe: validity, numbering and pairwise non-isomorphism only (no completeness half)
    # "v" runs: validity of every output only
    runs = "1:8,2:6,3:5,2:10u,3:8u,3:10v" if ctx.quick else "1:10,2:7,3:6,1:14u,2:11u,3:9u,3:11v,2:13v"
    ev = ctx.work / "events.ndjson"
    ctx.dsv("C06", "drive", "--out", ev, "--runs", runs, timeout=3600)
    for ln in open(ev):
        if '"dset_emit"' in ln or '"dset_valid"' in ln:
            e = json.loads(ln)
            if "set" in e and e["set"]["n"] >= 2:
                ctx.nontrivial.add(json.dumps(e["set"], sort_keys=True))
    ctx.exhaustive_universes.append(f"all tuples of involutions for (dim:max) in {runs}")
    rej = ctx.validate("Trace_C06", ev, shard=1, group_field="grp", xmx="12g", timeout=3600)
    ctx.confirm_and_raise("Trace_C06", rej, context_of=lambda shard, at: shard[:at])


def replay(ctx, path):
    ctx.build()
    rej = ctx.validate("Trace_C06", path, shard=10**9, xmx="12g")
    ctx.confirm_and_raise("Trace_C06", rej, context_of=lambda shard, at: shard[:at])

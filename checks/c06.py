"""C06 — the D-set generator enumerates every isomorphism class exactly once."""
import json
from vlib import Violation, ToolError, log

RULE = ("one history per (dimension, size bound): header, every emitted D-set, end; the End action compares the "
        "canonical forms seen with the classes of the universe of all tuples of involutions enumerated by TLC; "
        "non-trivial = distinct emitted D-set with >= 2 chambers")


def run(ctx):
    ctx.build()
    ctx.assume("classes are keyed by the specification's own canonical form of D-sets (CanonSet), a complete "
               "invariant by construction; its symbol version is model-checked in MC_Canon")
    runs = "1:7,2:6,3:5" if ctx.quick else "1:8,2:7,3:5"
    ev = ctx.work / "events.ndjson"
    ctx.dsv("C06", "drive", "--out", ev, "--runs", runs, timeout=3600)
    for ln in open(ev):
        if '"dset_emit"' in ln:
            e = json.loads(ln)
            if "set" in e and e["set"]["n"] >= 2:
                ctx.nontrivial.add(json.dumps(e["set"], sort_keys=True))
    ctx.exhaustive_universes.append(f"all tuples of involutions for (dim:max) in {runs}")
    rej = ctx.validate("Trace_C06", ev, shard=1, group_field="grp", xmx="12g", timeout=3600)
    ctx.confirm_and_raise("Trace_C06", rej, context_of=lambda shard, at: shard[:at])


def replay(ctx, path):
    ctx.build()
    rej = ctx.validate("Trace_C06", path, shard=10**9, xmx="12g")
    ctx.confirm_and_raise("Trace_C06", rej, context_of=lambda shard, at: shard[:at])

"""C20 — union-find partitions track exactly the unions performed."""
import json
from vlib import Violation, ToolError, log

RULE = ("cases = one per transition of the UnionFind machine (every reachable concrete state x every "
        "operation), replayed on IntPartition, Partition<usize>, Partition<String>; plus random histories "
        "validated as traces; non-trivial = distinct history with an effective union and a clone")


def replay_cases(ctx, path, elems):
    out = ctx.dsv("C20", "replay", path, "--elems", elems)
    r = json.loads(out.strip().splitlines()[-1])
    ctx.evaluations += r["executions"]
    ctx.traces += r["executions"]
    ctx.nontrivial_extra += r["nontrivial"]
    ctx.extra["replay_comparisons"] = ctx.extra.get("replay_comparisons", 0) + r["comparisons"]
    if r.get("sample"):
        ctx.sample(r["sample"])
    if r["mismatches"]:
        m = r["mismatches"][0]
        raise Violation(f"{m['type']}: {m['why']} after the history in the replay file",
                        replay_lines=[json.dumps(m["case"])], replay_name="history.ndjson")


def run(ctx):
    ctx.build()
    ctx.assume("the replayer observes representatives with find(), which itself compresses paths; "
               "this is modelled (Find steps) and is part of what is being checked")
    # 1. the machine refines the abstract partition: all histories, small constants
    ctx.mc("MC_UF", cfg="MC_UF" if ctx.quick else "MC_UF_t",
           require_actions=("Find", "Unite", "ClassesOp", "Clone"),
           universe="all histories of unite/find/classes/clone, %s" % ("4 elements x 2 instances" if ctx.quick else "5 elements x 2 instances"))
    # 2. spec -> impl: every transition of the machine as a replayable case
    # ("h", "h2", "ht": EVERY history up to 4 / 5 operations on 3 elements, also steps that leave the machine's state unchanged)
    cfgs = [("q", 3), ("a", 4), ("b", 5), ("c", 3), ("h", 3), ("h2", 3)] if ctx.quick else [("q", 3), ("a", 4), ("b", 5), ("c", 3), ("h", 3), ("h2", 3), ("ht", 3), ("t", 4), ("u", 6)]
    for tag, elems in cfgs:
        rc, out = ctx.tlc_raw("Gen_C20", cfg=f"Gen_C20_{tag}", workers=1, timeout=3000, xmx="8g", tag=f"gen_{tag}")
        if "No error has been found" not in out:
            raise ToolError("Gen_C20 failed:\n" + out[-3000:])
        st, tr = ctx._counts(out)
        ctx.states += st
        ctx.transitions += tr
        p = ctx.work / f"cases_{tag}.ndjson"
        with open(p, "w") as f:
            for ln in out.splitlines():
                if ln.startswith('"{'):
                    f.write(ln + "\n")
        log(f"[gen] Gen_C20_{tag}: {st} states, {tr} transitions -> cases")
        ctx.exhaustive_universes.append((f"every history of UnionFind up to the length bound of Gen_C20_{tag}.cfg" if tag.startswith("h") else
                                         f"every transition of UnionFind with constants of Gen_C20_{tag}.cfg"))
        replay_cases(ctx, p, elems)
    # 3. impl -> spec: random long histories as traces
    ev = ctx.work / "events.ndjson"
    if ctx.quick:
        ctx.dsv("C20", "drive", "--out", ev, "--histories", 9, "--len", 700, "--elems", 24)
    else:
        ctx.dsv("C20", "drive", "--out", ev, "--histories", 30, "--len", 3000, "--elems", 64)
    rej = ctx.validate("Trace_C20", ev, shard=1, group_key='op":"reset')
    ctx.confirm_and_raise("Trace_C20", rej, context_of=history_context)


def history_context(shard, at):
    """the events of the history the rejected event belongs to (from its reset on)"""
    start = 0
    for k in range(at - 1, -1, -1):
        if '"op":"reset"' in shard[k]:
            start = k
            break
    return shard[start:at]


def replay(ctx, path):
    ctx.build()
    first = open(path).readline()
    if '"ops"' in first:
        c = json.loads(first)
        elems = len(c["same"][0])
        replay_cases(ctx, path, elems)
    else:
        rej = ctx.validate("Trace_C20", path, shard=10**9)
        ctx.confirm_and_raise("Trace_C20", rej, context_of=history_context)

"""C19 — minimum cuts separate source from sink and have minimum size."""
import json
from vlib import Violation, ToolError, log

RULE = ("cases = (graph, source, sink, entry point): every simple digraph on <= N vertices enumerated by TLC "
        "(all ordered pairs, plus relabellings) and random graphs up to 9 vertices / 16 edges; non-trivial = "
        "distinct case whose returned cut is non-empty")


def count_nontrivial(ctx, path):
    for ln in open(path):
        if '"cut":[]' not in ln and '"panic"' not in ln:
            e = json.loads(ln)
            ctx.nontrivial.add((e["kind"], e["undirected"], json.dumps(e["edges"]), e["s"], e["t"]))


def run(ctx):
    ctx.build()
    ctx.assume("max-flow/min-cut and Menger's theorem are used as the fast optimality oracle for graphs with more "
               "than 7 edges / 8 vertices; both are model-checked against the subset definition on all digraphs "
               "with <= 4 vertices (MC_MaxFlow)")
    # 1. the augmenting-path machine and the oracles (spec only)
    ctx.mc("MC_MaxFlow", cfg="MC_MaxFlow", require_actions=("Augment", "Finish"),
           universe="all simple digraphs on 3 vertices, all source/sink pairs, all augmenting-path choices")
    ctx.mc("MC_MaxFlow", cfg="MC_MaxFlow_4", workers=12, require_actions=("Augment", "Finish"),
           universe="all simple digraphs on 4 vertices, all source/sink pairs, all augmenting-path choices")
    # 2. TLC-enumerated universe -> code -> trace validation
    plan = [("3", 1000, 2), ("4", 250, 1)] if ctx.quick else [("3", 1000, 3), ("4", 1000, 1), ("5s", 40, 1)]
    for tag, permille, relabel in plan:
        p, n = ctx.gen("Gen_C19", f"graphs_{tag}.ndjson", cfg=f"Gen_C19_{tag}", xmx="12g")
        ev = ctx.work / f"events_{tag}.ndjson"
        ctx.dsv("C19", "replay", p, "--out", ev, "--permille", permille, "--relabel", relabel, timeout=3600)
        if permille == 1000:
            ctx.exhaustive_universes.append(f"Gen_C19_{tag}.cfg: all graphs, four entry points")
        count_nontrivial(ctx, ev)
        rej = ctx.validate("Trace_C19", ev, shard=3000)
        ctx.confirm_and_raise("Trace_C19", rej)
    # 3. random larger graphs
    ev = ctx.work / "events_random.ndjson"
    ctx.dsv("C19", "drive", "--out", ev, "--graphs", 400 if ctx.quick else 4000, "--layered", 2500 if ctx.quick else 40000)
    count_nontrivial(ctx, ev)
    rej = ctx.validate("Trace_C19", ev, shard=150)
    ctx.confirm_and_raise("Trace_C19", rej)
    # 4. hooked runs: every augmentation of the real routine is a step of the augmenting-path machine
    hv = ctx.work / "hooked.ndjson"
    out = ctx.dsv("C19", "hooked", "--out", hv, "--graphs", 600 if ctx.quick else 8000)
    info = json.loads(out.strip().splitlines()[-1])
    if info.get("runs", 0) > 0:
        ctx.extra["hooked_runs"] = info["runs"]
        rej = ctx.validate("Trace_C19h", hv, shard=400, group_field="run")
        ctx.confirm_and_note("Trace_C19h", rej, context_of=run_context)
    else:
        ctx.notes.append("hooks not compiled in: step-wise conformance of min_edge_cut skipped")


def run_context(shard, at):
    import re
    g = re.search(r'"run":"([^"]*)"', shard[min(at, len(shard)) - 1]).group(1)
    return [ln for ln in shard if f'"run":"{g}"' in ln]


def replay(ctx, path):
    ctx.build()
    mod = "Trace_C19h" if '"ev":"header"' in open(path).readline() else "Trace_C19"
    rej = ctx.validate(mod, path, shard=10**9)
    if mod == "Trace_C19h":
        ctx.confirm_and_note(mod, rej, context_of=lambda shard, at: shard)
        return
    ctx.confirm_and_raise(mod, rej, context_of=(lambda shard, at: shard) if mod == "Trace_C19h" else None)

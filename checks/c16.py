"""C16 — simplification keeps a 3-D tiling a valid manifold of the same topology."""
import json
from vlib import Violation, ToolError, log, VERIF

RULE = ("events = simplify on pseudo-toroidal covers of the corpus, of the duals of its symbols and the recorded regression "
        "inputs (each with random renumberings and plain repetitions of the call) and of domain symbols, on finite "
        "universal covers and on freely acting cyclic covers of spherical 3-D symbols (finite groups); non-trivial = "
        "event whose result differs in size from the input")


def run(ctx):
    ctx.build()
    ctx.assume("equality of fundamental groups is decided through first homology and small-index class counts, as the statement says")
    from c15 import prism_files
    prisms = prism_files(ctx)
    ev = ctx.work / "events.ndjson"
    if ctx.quick:
        ctx.dsv("C16", "drive", "--out", ev, "--max3d", 3, "--permille", 500, "--per-base", 1,
                "--variants", 10, "--repeats", 3, "--cover-cap", 40, "--prisms", prisms, "--prism-cap", 40, "--regress", VERIF / "corpora" / "c16_regress.ds", timeout=7200)
    else:
        ctx.dsv("C16", "drive", "--out", ev, "--max3d", 3, "--permille", 1000,
                "--variants", 40, "--repeats", 6, "--cover-cap", 600, "--prisms", prisms, "--prism-cap", 600, "--regress", VERIF / "corpora" / "c16_regress.ds", timeout=14400)
    for ln in open(ev):
        e = json.loads(ln)
        if e.get("some") and e["out"]["n"] != e["in"]["n"]:
            ctx.nontrivial.add(json.dumps(e["in"], sort_keys=True)[:2000])
    rej = ctx.validate("Trace_C16", ev, shard=24, xmx="6g", timeout=7200)
    ctx.confirm_and_raise("Trace_C16", rej)


def replay(ctx, path):
    ctx.build()
    rej = ctx.validate("Trace_C16", path, shard=10**9, xmx="6g")
    ctx.confirm_and_raise("Trace_C16", rej)

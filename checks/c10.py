"""C10 — free words behave as reduced elements of a free group."""
import json
from vlib import Violation, ToolError, log

RULE = ("cases = every operation on every reduced word / pair of words up to a length bound (values computed "
        "by FreeGroup.tla), every transition of the Words register machine, and random long words validated "
        "as a trace; non-trivial = a product/new that needed a cancellation, a unary case on a word of length "
        ">= 2, or a history of >= 2 operations")


def replay_cases(ctx, path):
    out = ctx.dsv("C10", "replay", path)
    r = json.loads(out.strip().splitlines()[-1])
    ctx.evaluations += r["comparisons"]
    ctx.traces += r["cases"]
    ctx.nontrivial_extra += r["nontrivial"]
    for c in r["conformance"]:
        ctx.notes.append(c)
    if r.get("sample"):
        ctx.sample(r["sample"])
    if r["mismatches"]:
        m = r["mismatches"][0]
        case = m.pop("case")
        raise Violation(f"free word operation disagrees with the free-group calculus: {json.dumps(m)[:400]}",
                        replay_lines=[json.dumps(case)], replay_name="case.ndjson")


def gen_transitions(ctx, tag):
    rc, out = ctx.tlc_raw("Gen_C10w", cfg=f"Gen_C10w_{tag}", workers=1, timeout=3000, xmx="8g", tag=f"genw_{tag}")
    if "No error has been found" not in out:
        raise ToolError("Gen_C10w failed:\n" + out[-3000:])
    st, tr = ctx._counts(out)
    ctx.states += st
    ctx.transitions += tr
    p = ctx.work / f"hist_{tag}.ndjson"
    with open(p, "w") as f:
        for ln in out.splitlines():
            if ln.startswith('"{'):
                f.write(ln + "\n")
    log(f"[gen] Gen_C10w_{tag}: {st} states, {tr} transitions -> cases")
    ctx.exhaustive_universes.append(f"every transition of the Words machine with constants of Gen_C10w_{tag}.cfg")
    return p


def run(ctx):
    ctx.build()
    ctx.assume("the reduced form of a free-group element is unique (so letter-wise comparison of results is "
               "comparison in the free group); confluence of free reduction is checked by MC_FreeGroup")
    # 1. lemmas about the spec's own calculus (no code involved)
    ctx.mc("MC_FreeGroup", cfg="MC_FreeGroup_3" if ctx.quick else "MC_FreeGroup",
           universe="free-group lemmas on all pairs of reduced words: " + ("3 generators, length <= 2" if ctx.quick else "2 generators, length <= 3"))
    if not ctx.quick:
        ctx.mc("MC_FreeGroup", cfg="MC_FreeGroup_3", universe="free-group lemmas, 3 generators, length <= 2")
    # 2. spec -> impl: operation tables
    for cfg in (["Gen_C10", "Gen_C10_3"] if ctx.quick else ["Gen_C10", "Gen_C10_3", "Gen_C10_t"]):
        p, n = ctx.gen("Gen_C10", f"cases_{cfg}.ndjson", cfg=cfg)
        ctx.exhaustive_universes.append(f"all unary/binary/new cases of {cfg}.cfg")
        replay_cases(ctx, p)
    # 3. spec -> impl: every transition of the register machine
    replay_cases(ctx, gen_transitions(ctx, "q"))
    if not ctx.quick:
        replay_cases(ctx, gen_transitions(ctx, "t"))
    # 4. impl -> spec: order table and random long words
    ev = ctx.work / "events.ndjson"
    ctx.dsv("C10", "drive", "--out", ev, "--ops", 1500 if ctx.quick else 12000, "--maxlen", 60 if ctx.quick else 200, "--periodic", 60 if ctx.quick else 400)
    rej = ctx.validate("Trace_C10", ev, shard=400)
    ctx.confirm_and_raise("Trace_C10", rej)


def replay(ctx, path):
    ctx.build()
    first = open(path).readline()
    if '"ev"' in first:
        rej = ctx.validate("Trace_C10", path, shard=10**9)
        ctx.confirm_and_raise("Trace_C10", rej)
    else:
        replay_cases(ctx, path)

"""C05 — every cover constructor returns a genuine covering of the base symbol."""
import json
from vlib import Violation, ToolError, log
from c02 import universes

RULE = ("events = oriented_cover, covers(k) with the full list, subgroup_cover and finite_universal_cover results over TLC "
        "universes, generator outputs and 3-D sets with branching; counts per sheet number compared with the direct "
        "enumeration of Covers.tla up to kcheck; non-trivial = distinct event that produced a cover with >= 2 sheets")


def run(ctx):
    ctx.build()
    ctx.assume("Gauss-Bonnet: the universal cover of a spherical 2-D symbol has |S| * 4 / K(S) chambers")
    paths = universes(ctx, ["c1d2", "k3d2", "k2d3"] if ctx.quick else ["c1d2", "k3d2", "k2d3", "k4d2", "k3d3"])
    ev = ctx.work / "events.ndjson"
    ctx.dsv("C05", "drive", "--out", ev, "--universe", ",".join(paths), "--maxgen", 4 if ctx.quick else 6,
            *(["--deep", 12, "--deep-per", 80, "--deep-covers", 900, "--counts", 400, "--counts-k", 6] if ctx.quick else
              ["--deep", 120, "--deep-per", 100000, "--deep-list", 3000, "--deep-covers", 40000, "--counts", 2400, "--counts-k", 7]), timeout=14400)
    for ln in open(ev):
        e = json.loads(ln)
        n = e["in"]["n"]
        outs = e.get("outs") or ([e["out"]] if "out" in e else [])
        if any(o["n"] > n for o in outs):
            ctx.nontrivial.add(ln[:300])
    rej = ctx.validate("Trace_C05", ev, shard=40, xmx="6g", timeout=7200)
    ctx.confirm_and_raise("Trace_C05", rej)


def replay(ctx, path):
    ctx.build()
    rej = ctx.validate("Trace_C05", path, shard=10**9, xmx="6g")
    ctx.confirm_and_raise("Trace_C05", rej)

"""C04 — minimal image, minimality test, automorphisms, morphism search."""
import json
from vlib import Violation, ToolError, log
from c02 import universes

RULE = ("events = minimal_image/is_minimal, automorphisms, morphism(src,dst,x) for EVERY base image x, and fold(p0,d,e) from the trivial and from a folded partition; symbols: "
        "TLC-enumerated universes, generator outputs, 3-D sets with branching, covers (2-3 sheets) with their "
        "bases; non-trivial = distinct symbol that is not minimal or has a non-trivial automorphism")


def run(ctx):
    ctx.build()
    ctx.assume("a morphism out of a connected symbol is determined by the image of chamber 1")
    # the fold / minimal-image machine: least congruence, failure criterion, loop = coarsest congruence (spec only)
    for c in (["3d2", "4d2", "2d3"] if ctx.quick else ["3d2", "4d2", "2d3", "3d3", "5d2", "6d2"]):
        ctx.mc("MC_Fold", cfg=f"MC_Fold_{c}", workers=12, universe=f"Fold.tla theorems on every connected symbol and base pair of MC_Fold_{c}.cfg")
    paths = universes(ctx, ["c1d2", "k3d2", "k2d3"] if ctx.quick else ["c1d2", "k3d2", "k2d3", "k4d2", "k3d3"])
    ev = ctx.work / "events.ndjson"
    ctx.dsv("C04", "drive", "--out", ev, "--universe", ",".join(paths), "--maxgen", 5 if ctx.quick else 6, timeout=3600)
    for ln in open(ev):
        if '"ev":"minimal"' in ln:
            e = json.loads(ln)
            if "out" in e and e["out"]["n"] < e["in"]["n"]:
                ctx.nontrivial.add(json.dumps(e["in"], sort_keys=True))
        elif '"ev":"auts"' in ln:
            e = json.loads(ln)
            if len(e.get("auts", [])) > 1:
                ctx.nontrivial.add(json.dumps(e["in"], sort_keys=True))
    rej = ctx.validate("Trace_C04", ev, shard=400)
    ctx.confirm_and_raise("Trace_C04", rej)


def replay(ctx, path):
    ctx.build()
    rej = ctx.validate("Trace_C04", path, shard=10**9)
    ctx.confirm_and_raise("Trace_C04", rej)

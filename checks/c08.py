"""C08 — 2-D curvature, orbifold symbol and geometry class are mutually consistent."""
import json
from vlib import Violation, ToolError, log
from c02 import universes

RULE = ("events = one per base symbol: curvature, parsed orbifold symbol and geometry predicates of the symbol and of "
        "its renumbering, dual and covers; symbols: TLC universes, generator outputs, all connected D-sets up to a "
        "size bound with branching assignments up to 4 (capped per D-set) and some larger orders; non-trivial = "
        "distinct base symbol with a cone, corner, boundary or handle/cross-cap")


def run(ctx):
    ctx.build()
    ctx.assume("classification of 2-orbifolds: Euler characteristic of the orbifold named by a Conway symbol is "
               "2 - sum(1-1/n) - sum over boundaries (1 + sum (1-1/m)/2) - 2*handles - crosscaps")
    paths = universes(ctx, ["c1d2", "k3d2"] if ctx.quick else ["c1d2", "k3d2", "k4d2", "k5d2"])
    ev = ctx.work / "events.ndjson"
    ctx.dsv("C08", "drive", "--out", ev, "--universe", ",".join(paths), "--maxgen", 5 if ctx.quick else 6,
            "--maxset", 4 if ctx.quick else 6, timeout=3600)
    for ln in open(ev):
        e = json.loads(ln)
        o = e["base"].get("orb")
        if o and (o["cones"] or o["bnds"] or o["handles"] or o["crosscaps"]):
            ctx.nontrivial.add(json.dumps(e["base"]["sym"], sort_keys=True))
    rej = ctx.validate("Trace_C08", ev, shard=120)
    ctx.confirm_and_raise("Trace_C08", rej)


def replay(ctx, path):
    ctx.build()
    rej = ctx.validate("Trace_C08", path, shard=10**9)
    ctx.confirm_and_raise("Trace_C08", rej)

"""C18 — exact linear algebra agrees with rational arithmetic for every backend."""
import json
from vlib import Violation, ToolError, log

RULE = ("events = rank / det / nullspace / solve / inverse per backend (BigRational, Z/61, i64 inside its box), p-adic "
        "solver, field operations of Z/61, echelon construction of the fixed-size Matrix; matrices: all small shapes "
        "enumerated by TLC, random shapes 1x1..6x6 with entries up to 1e9 incl. rank-deficient ones, systems singular "
        "modulo the solver's prime; non-trivial = distinct matrix with rank >= 1 that is not a 0/1 matrix with one 1 per row")


def count(ctx, path):
    for ln in open(path):
        if '"ev":"rank"' in ln and '"bigrational"' in ln:
            e = json.loads(ln)
            a = e["a"]
            if e.get("out", 0) >= 1 and not all(sorted(map(abs, r))[-2:] in ([0, 1], [1]) and sum(map(abs, r)) <= 1 for r in a):
                ctx.nontrivial.add(json.dumps(a))


def run(ctx):
    ctx.build()
    ctx.assume("Chinese remainder theorem with the explicit digit bounds of ModArith!Enough (every prime > 10^4.49)",
               "rank over Q = maximum of the ranks modulo enough primes (their product exceeds every minor)",
               "the i64 backend is exercised only in the box {<=3x3,|a|<=100} u {<=4x4,|a|<=10} u {<=6x6,|a|<=2}; outside it "
               "intermediate values overflow machine integers (documented observation, DESIGN.md section 6)",
               "the fixed-size Matrix<T,N,M> keeps rank/solve/... private; without a hook only its public row-echelon constructor is driven")
    # 0a. the p-adic solver machine: lifting invariants and the reconstruction theorem on ALL small systems
    for cfg in (["a", "c"] if ctx.quick else ["a", "b", "c", "d"]):
        ctx.mc("MC_PAdic", cfg="MC_PAdic_" + cfg, workers=8, require_actions=(("PNext",) if cfg == "a" else ()),
               universe=f"p-adic solver machine on all systems of MC_PAdic_{cfg}.cfg")
    ctx.mc("MC_PGraph", cfg="MC_PGraph", workers=4, universe="all edges on 2 vertices with shifts -2..2 (canonical form of periodic-graph edges)")
    # 0b. the elimination machine: invariants and read-out theorems on ALL small matrices, for EVERY choice of pivot rows
    for cfg in (["z22", "z23", "z32", "f22", "f23"] if ctx.quick else
                ["z22", "z23", "z32", "z33", "z24", "z42", "z33b", "z34", "z43", "f22", "f23", "f32", "f33", "f33b", "f34"]):
        ctx.mc("MC_Echelon", cfg="MC_Echelon_" + cfg, workers=8, require_actions=(("ENext",) if cfg == "z22" else ()),
               universe=f"Echelon machine on all matrices of MC_Echelon_{cfg}.cfg, every pivot choice")
    p, n = ctx.gen("Gen_C18", "mats.ndjson", cfg="Gen_C18" if ctx.quick else "Gen_C18_t", xmx="8g")
    ctx.exhaustive_universes.append("all integer matrices of the small shapes of Gen_C18 (%d matrices)" % n)
    ev = ctx.work / "events_tlc.ndjson"
    ech = ctx.work / "echelon_tlc.ndjson"
    ctx.dsv("C18", "replay", p, "--out", ev, "--echelon", ech, timeout=3600)
    count(ctx, ev)
    rej = ctx.validate("Trace_C18", ev, shard=2500)
    ctx.confirm_and_raise("Trace_C18", rej)
    # hooked: every state of every elimination run satisfies the invariants of Echelon.tla
    if ctx.quick:
        # conformance-level validation: every third run of the TLC-enumerated matrices is enough for the quick tier
        thin = ctx.work / "echelon_tlc_thin.ndjson"
        with open(ech) as f, open(thin, "w") as g:
            for k, ln in enumerate(f):
                if k % 3 == 0 or '"padic_run"' in ln:
                    g.write(ln)
        ech = thin
    rej = ctx.validate("Trace_C18e", ech, shard=300)
    ctx.confirm_and_raise("Trace_C18e", rej)
    ev = ctx.work / "events.ndjson"
    ech = ctx.work / "echelon.ndjson"
    ctx.dsv("C18", "drive", "--out", ev, "--echelon", ech, "--matrices", 150 if ctx.quick else 3000, timeout=3600)
    count(ctx, ev)
    rej = ctx.validate("Trace_C18", ev, shard=120)
    ctx.confirm_and_raise("Trace_C18", rej)
    rej = ctx.validate("Trace_C18e", ech, shard=40)
    ctx.confirm_and_raise("Trace_C18e", rej)


def replay(ctx, path):
    ctx.build()
    mod = "Trace_C18e" if '"echelon_run"' in open(path).read(4000) else "Trace_C18"
    rej = ctx.validate(mod, path, shard=10**9)
    ctx.confirm_and_raise(mod, rej)

"""C12 — low-index enumeration lists each subgroup conjugacy class exactly once."""
import json
from vlib import Violation, ToolError, log

RULE = ("one event per (presentation, index bound) with ALL tables the enumeration yields: free, free abelian, surface, "
        "triangle, Coxeter, Baumslag-Solitar groups, the finite corpus of C11, orbifold groups of small 2-D/3-D symbols; "
        "counts per index up to kcheck compared with brute-force classes of homomorphisms into Sym(j); non-trivial = "
        "presentation with >= 2 tables")


def run(ctx):
    ctx.build()
    ctx.assume("conjugacy classes of subgroups of index j correspond to transitive homomorphisms into Sym(j) up to conjugation")
    # lemma: the canonical form of actions used for "pairwise inequivalent" is a complete invariant
    ctx.mc("MC_Action", cfg="MC_Action_32", workers=12, universe="all pairs of transitive actions of 2 generators on 3 points")
    if not ctx.quick:
        ctx.mc("MC_Action", cfg="MC_Action_42", workers=12, universe="all pairs of transitive actions of 2 generators on 4 points")
    ev = ctx.work / "events.ndjson"
    ctx.dsv("C12", "drive", "--out", ev, "--maxsym", 2 if ctx.quick else 3, "--deep", 40 if ctx.quick else 200,
            "--deep-k", 6 if ctx.quick else 7, timeout=7200)
    for ln in open(ev):
        e = json.loads(ln)
        if len(e.get("tables", [])) >= 2:
            ctx.nontrivial.add(json.dumps([e["ng"], e["rels"], e["k"]]))
    rej = ctx.validate("Trace_C12", ev, shard=3, xmx="8g", timeout=7200)
    ctx.confirm_and_raise("Trace_C12", rej)
    # hooked runs: every derived_table call of the backtracking search is the transition function of LowIndex.tla
    for c in (["S3", "Z2", "F2", "T23", "U", "U3"] if ctx.quick else ["S3", "Z2", "F2", "T23", "KB", "U", "U3"]):
        ctx.mc("MC_LowIndex", cfg=f"MC_LowIndex_{c}", workers=8, universe=f"backtracking tree of LowIndex.tla, instance MC_LowIndex_{c}.cfg")
    hv = ctx.work / "hooked.ndjson"
    out = ctx.dsv("C12", "hooked", "--out", hv, "--syms", 14 if ctx.quick else 80, "--k", 5 if ctx.quick else 6,
                  "--cap", 150 if ctx.quick else 1500, timeout=7200)
    info = json.loads(out.strip().splitlines()[-1])
    if info.get("runs", 0) > 0:
        ctx.extra["hooked_runs"] = info["runs"]
        rej = ctx.validate("Trace_C12h", hv, shard=400, group_field="run", xmx="4g", timeout=7200)
        ctx.confirm_and_note("Trace_C12h", rej, context_of=run_context)
    else:
        ctx.notes.append("hooks not compiled in: step-wise conformance of the low-index search skipped")


def run_context(shard, at):
    import re
    g = re.search(r'"run":"([^"]*)"', shard[min(at, len(shard)) - 1]).group(1)
    hdr = [ln for ln in shard if f'"run":"{g}"' in ln and '"ev":"header"' in ln]
    return hdr[:1] + [shard[at - 1]]


def replay(ctx, path):
    ctx.build()
    mod = "Trace_C12h" if '"ev":"header"' in open(path).readline() else "Trace_C12"
    rej = ctx.validate(mod, path, shard=10**9, xmx="8g")
    if mod == "Trace_C12h":
        ctx.confirm_and_note(mod, rej, context_of=lambda shard, at: shard)
        return
    ctx.confirm_and_raise(mod, rej, context_of=(lambda shard, at: shard) if mod == "Trace_C12h" else None)

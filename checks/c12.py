"""C12 — low-index enumeration lists each subgroup conjugacy class exactly once."""
import json
from vlib import Violation, ToolError, log

RULE = ("one event per (presentation, index bound) with ALL tables the enumeration yields: free, free abelian, surface, "
        "triangle, Coxeter, Baumslag-Solitar groups, the finite corpus of C11, orbifold groups of small 2-D/3-D symbols; "
        "counts per index up to kcheck compared with brute-force classes of homomorphisms into Sym(j); non-trivial = "
        "presentation with >= 2 tables")


def run(ctx):
    ctx.build()
    ctx.assume("conjugacy classes of subgroups of index j correspond to transitive homomorphisms into Sym(j) up to conjugation")
    # lemma: the canonical form of actions used for "pairwise inequivalent" is a complete invariant
    ctx.mc("MC_Action", cfg="MC_Action_32", workers=12, universe="all pairs of transitive actions of 2 generators on 3 points")
    if not ctx.quick:
        ctx.mc("MC_Action", cfg="MC_Action_42", workers=12, universe="all pairs of transitive actions of 2 generators on 4 points")
    ev = ctx.work / "events.ndjson"
    ctx.dsv("C12", "drive", "--out", ev, "--maxsym", 2 if ctx.quick else 3, "--deep", 40 if ctx.quick else 200,
            "--deep-k", 6 if ctx.quick else 7, timeout=7200)
    for ln in open(ev):
        e = json.loads(ln)
        if len(e.get("tables", [])) >= 2:
            ctx.nontrivial.add(json.dumps([e["ng"], e["rels"], e["k"]]))
    rej = ctx.validate("Trace_C12", ev, shard=3, xmx="8g", timeout=7200)
    ctx.confirm_and_raise("Trace_C12", rej)


def replay(ctx, path):
    ctx.build()
    rej = ctx.validate("Trace_C12", path, shard=10**9, xmx="8g")
    ctx.confirm_and_raise("Trace_C12", rej)

"""C13 — stabiliser presentation, core and intersection tables are exact."""
import json
from vlib import Violation, ToolError, log
from c11 import group_context

RULE = ("events = stabiliser presentations (finite groups with verified permutation models: all/sampled base rows of "
        "low-index and coset-enumeration tables; infinite orbifold groups: all base rows of tables of index <= 3, compared "
        "with the fundamental group of the corresponding cover), core tables and intersection tables; non-trivial = "
        "event on a table with >= 2 rows")


def run(ctx):
    ctx.build()
    ctx.assume("orders of the classical presentations as in C11; order of a presented stabiliser is taken from the "
               "library's coset enumeration (C11) and validated as an action here",
               "infinite groups: 'same group' is decided through abelianisation and the number of index-2 classes, as the statement says")
    ev = ctx.work / "events.ndjson"
    ctx.dsv("C13", "drive", "--out", ev, "--maxsym", 3 if ctx.quick else 4, "--tables", 6 if ctx.quick else 16, "--anyk", 3 if ctx.quick else 4, timeout=7200)
    for ln in open(ev):
        e = json.loads(ln)
        t = e.get("table") or e.get("in") or e.get("a")
        if t and len(t.get("img", [])) >= 2:
            ctx.nontrivial.add(ln[:400])
    rej = ctx.validate("Trace_C13", ev, shard=40, group_field="grp", xmx="6g", timeout=7200)
    for r in rej:
        if r["event"] and '"ev":"group"' in r["event"]:
            raise ToolError("a permutation model of the classical corpus (harness data) was rejected")
    ctx.confirm_and_raise("Trace_C13", rej, context_of=group_context)


def replay(ctx, path):
    ctx.build()
    rej = ctx.validate("Trace_C13", path, shard=10**9, xmx="6g")
    ctx.confirm_and_raise("Trace_C13", rej, context_of=lambda shard, at: shard[:at])

"""C09 — the fundamental-group presentation presents the orbifold fundamental group."""
import json
from vlib import Violation, ToolError, log
from c02 import universes

RULE = ("one event per connected complete symbol with everything fundamental_group returns; symbols: TLC universes, "
        "generator outputs, 3-D sets with branching, renumberings, covers with 12-24 chambers; group-level clauses "
        "computed inside the spec (Smith form of the textbook relation matrix, brute-force homomorphisms vs direct "
        "cover enumeration); non-trivial = distinct symbol with >= 1 generator")


def run(ctx):
    ctx.build()
    ctx.assume("the orbifold fundamental group of a spherical 2-D symbol has order 4 / curvature",
               "for infinite groups 'same group' is decided through the invariants the statement names")
    paths = universes(ctx, ["c1d2", "k3d2", "k2d3"] if ctx.quick else ["c1d2", "k3d2", "k2d3", "k4d2", "k3d3"])
    ev = ctx.work / "events.ndjson"
    ctx.dsv("C09", "drive", "--out", ev, "--universe", ",".join(paths), "--maxgen", 4 if ctx.quick else 6,
            "--big", 3 if ctx.quick else 20, "--reach3d", 100 if ctx.quick else 1500, "--degenerate", 40 if ctx.quick else 100000, "--deep3d", 450 if ctx.quick else 1500, timeout=7200)
    for ln in open(ev):
        e = json.loads(ln)
        if e.get("ngens", 0) >= 1:
            ctx.nontrivial.add(json.dumps(e["sym"], sort_keys=True))
    rej = ctx.validate("Trace_C09", ev, shard=60, xmx="6g", timeout=7200)
    ctx.confirm_and_raise("Trace_C09", rej)


def replay(ctx, path):
    ctx.build()
    rej = ctx.validate("Trace_C09", path, shard=10**9, xmx="6g")
    ctx.confirm_and_raise("Trace_C09", rej)

"""C14 — abelian invariants are the invariant factors of the relation lattice."""
import json
from vlib import Violation, ToolError, log

RULE = ("cases = relation matrices enumerated by TLC (all small matrices; structured non-chain / rank-deficient / "
        "unimodularly disguised up to 5x5) replayed in 4 word arrangements, plus random presentations and orbifold "
        "groups with 6 transformed variants each validated as traces; non-trivial = distinct matrix with a "
        "non-unit factor or a free part although it has non-zero rows")


def replay_cases(ctx, path):
    out = ctx.dsv("C14", "replay", path)
    r = json.loads(out.strip().splitlines()[-1])
    ctx.evaluations += r["comparisons"]
    ctx.traces += r["cases"]
    ctx.nontrivial_extra += r["nontrivial"]
    if r.get("sample"):
        ctx.sample(r["sample"])
    if r["mismatches"]:
        m = r["mismatches"][0]
        case = m.pop("case")
        raise Violation(f"abelian_invariants disagrees with the invariant factors: {json.dumps(m)[:400]} expected {case['expected']}",
                        replay_lines=[json.dumps(case)], replay_name="case.ndjson")


def run(ctx):
    ctx.build()
    ctx.assume("invariant factors are defined by determinantal divisors; the recursive Smith reduction used for "
               "larger matrices is checked against that definition by MC_Diag (invariant OraclesAgree)")
    # 1. the diagonalisation machine preserves the lattice and ends with the invariant factors
    for cfg in (["MC_Diag_22", "MC_Diag_23"] if ctx.quick else ["MC_Diag_22", "MC_Diag_23", "MC_Diag_32", "MC_Diag_33", "MC_Diag_24", "MC_Diag_42"]):
        ctx.mc("MC_Diag", cfg=cfg, workers=12,
               require_actions=(("MovePivot", "StepRows", "StepCols", "AbsDiag") if cfg == "MC_Diag_22" else ()),
               universe=f"Diagonalize machine on all matrices of {cfg}.cfg")
    # 2. spec -> impl
    p, n = ctx.gen("Gen_C14", "cases.ndjson", cfg="Gen_C14" if ctx.quick else "Gen_C14_t", xmx="8g")
    ctx.exhaustive_universes.append("all matrices of the small shapes of Gen_C14 (entries bounded as in the module)")
    replay_cases(ctx, p)
    # 3. impl -> spec
    ev = ctx.work / "events.ndjson"
    ctx.dsv("C14", "drive", "--out", ev, "--presentations", 400 if ctx.quick else 4000, "--maxn", 3 if ctx.quick else 5)
    for ln in open(ev):
        e = json.loads(ln)
        if any(x > 1 for x in e.get("out", [])) or (0 in e.get("out", []) and e["relators"]):
            ctx.nontrivial.add(json.dumps([e["ngens"], e["relators"]]))
    rej = ctx.validate("Trace_C14", ev, shard=60)
    ctx.confirm_and_raise("Trace_C14", rej)


def replay(ctx, path):
    ctx.build()
    first = open(path).readline()
    if '"ev"' in first:
        rej = ctx.validate("Trace_C14", path, shard=10**9)
        ctx.confirm_and_raise("Trace_C14", rej)
    else:
        replay_cases(ctx, path)

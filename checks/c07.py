"""C07 — the D-symbol generator is sound, complete and irredundant per geometry."""
import json
from vlib import Violation, ToolError, log

RULE = ("one event per connected complete 2-D D-set (all up to a size bound, from the D-set generator checked by C06) "
        "with the generator's full output for the four geometry settings; the three declarative sets are computed "
        "by GenSym.tla inside a box of branching <= 9; non-trivial = D-set with a non-empty output")


def run(ctx):
    ctx.build()
    ctx.assume("the search box (branching <= 9, pruned at curvature < -1) contains every admissible assignment: "
               "DESIGN.md section 7/C07; each event also asserts that no member of the three sets exceeds 7",
               "the D-sets fed to the generator come from the D-set generator (its completeness is C06)")
    ev = ctx.work / "events.ndjson"
    ctx.dsv("C07", "drive", "--out", ev, "--max", 6 if ctx.quick else 8, timeout=3600)
    for ln in open(ev):
        e = json.loads(ln)
        if e.get("all"):
            ctx.nontrivial.add(json.dumps([e["n"], e["op"]]))
    ctx.exhaustive_universes.append("all connected complete 2-D D-sets with at most %d chambers" % (6 if ctx.quick else 8))
    rej = ctx.validate("Trace_C07", ev, shard=8 if ctx.quick else 12, xmx="6g", timeout=3600)
    ctx.confirm_and_raise("Trace_C07", rej)


def replay(ctx, path):
    ctx.build()
    rej = ctx.validate("Trace_C07", path, shard=10**9, xmx="6g")
    ctx.confirm_and_raise("Trace_C07", rej)

"""C17 — 3-D euclidicity verdicts are total, invariant and never contradictory."""
import json
from vlib import Violation, ToolError, log

RULE = ("events = is_euclidean on the 17 corpus symbols and on all 3-D symbols of the domain up to a size bound (quick: "
        "all of n <= 3 that pass the invariant filter plus a seeded sample of the others), with renumbering, dual, some 2-sheeted covers, "
        "ALL 2-sheeted covers of every symbol reported euclidean, recursively for those covers that are euclidean again; non-trivial = symbol whose verdict is not 'orbifold invariants do not match'")


def run(ctx):
    ctx.build()
    ctx.assume("a 'no' verdict is only checked for consistency (the statement claims no more)",
               "certificate: covering checked by the spec; H1 and subgroup counts on the library's presentation of the simplified cover")
    from c15 import prism_files
    prisms = prism_files(ctx)
    ev = ctx.work / "events.ndjson"
    if ctx.quick:
        ctx.dsv("C17", "drive", "--out", ev, "--max3d", 3, "--permille", 120, "--cover-depth", 1,
                "--prisms", prisms, "--prism-cap", 60, "--prism-over", 8, "--prism-over-cap", 40, timeout=7200)
    else:
        ctx.dsv("C17", "drive", "--out", ev, "--max3d", 4, "--permille", 100, "--cover-depth", 2,
                "--prisms", prisms, "--prism-cap", 1500, "--prism-sheets", 3, "--prism-over", 9, "--prism-over-cap", 400, timeout=14400)
    for ln in open(ev):
        e = json.loads(ln)
        if e.get("reason") != "orbifold invariants do not match":
            ctx.nontrivial.add(json.dumps(e["sym"], sort_keys=True))
    rej = ctx.validate("Trace_C17", ev, shard=60, xmx="6g", timeout=7200)
    ctx.confirm_and_raise("Trace_C17", rej)


def replay(ctx, path):
    ctx.build()
    rej = ctx.validate("Trace_C17", path, shard=10**9, xmx="6g")
    ctx.confirm_and_raise("Trace_C17", rej)

"""C01 — D-symbol text form round-trips and parsing never panics."""
import json
from vlib import Violation, ToolError, log
from c02 import universes

RULE = ("events = parse results of TLC-generated texts (every printed small symbol and every single-number "
        "mutation, two white-space styles, with the format specification's verdict), of mutated valid texts and "
        "token soups, and print/parse round trips of symbols built with the library's constructors; non-trivial "
        "= distinct text that is accepted, or a round trip of a symbol with >= 2 chambers")


def count(ctx, path):
    for ln in open(path):
        if '"ok":true' in ln:
            e = json.loads(ln)
            if e["ev"] == "parse":
                ctx.nontrivial.add(e["text"])
            elif e["sym"]["n"] >= 2:
                ctx.nontrivial.add(json.dumps(e["sym"], sort_keys=True))


def run(ctx):
    ctx.build()
    ctx.assume("strings are sampled (no finite universe exists); number-level mutations of all small symbols are exhaustive")
    gens = ["1d2", "2d2", "2d1", "1d3", "2d3"] if ctx.quick else ["1d2", "2d2", "2d1", "1d3", "2d3", "3d1", "3d2"]
    for g in gens:
        p, n = ctx.gen("Gen_C01", f"texts_{g}.ndjson", cfg=f"Gen_C01_{g}", xmx="12g")
        ctx.exhaustive_universes.append(f"Gen_C01_{g}.cfg: printed symbols and all single-number mutations ({n} texts)")
        ev = ctx.work / f"events_{g}.ndjson"
        ctx.dsv("C01", "replay", p, "--out", ev, timeout=3600)
        count(ctx, ev)
        rej = ctx.validate("Trace_C01", ev, shard=2500)
        ctx.confirm_and_raise("Trace_C01", rej)
    paths = universes(ctx, ["c1d2", "c2d2", "c3d2", "c2d3", "c3d1"] if ctx.quick else ["c1d2", "c2d2", "c3d2", "c2d3", "c3d1", "c4d2", "c3d3", "c4d1", "k4d2"])
    ev = ctx.work / "events.ndjson"
    ctx.dsv("C01", "drive", "--out", ev, "--universe", ",".join(paths), "--random", 6000 if ctx.quick else 80000,
            "--maxgen", 5 if ctx.quick else 6, "--big", 4 if ctx.quick else 20, timeout=3600)
    count(ctx, ev)
    rej = ctx.validate("Trace_C01", ev, shard=1500)
    ctx.confirm_and_raise("Trace_C01", rej)


def replay(ctx, path):
    ctx.build()
    rej = ctx.validate("Trace_C01", path, shard=10**9)
    ctx.confirm_and_raise("Trace_C01", rej)

"""C03 — canonical form is a complete isomorphism invariant."""
import json
from vlib import Violation, ToolError, log
from c02 import universes

RULE = ("events = canonical() of a connected symbol plus canonical() of the result; symbols: TLC-enumerated "
        "universes with all / random renumberings, generator outputs with renumberings and duals, covers with "
        "48-480 chambers with renumberings; the trace state holds all forms seen, keyed by class; non-trivial = "
        "distinct input symbol with >= 2 chambers")


def run(ctx):
    ctx.build()
    ctx.assume("the specification's own canonical form (rooted breadth-first relabelling minimised over roots) is a "
               "complete isomorphism invariant; checked against brute-force isomorphism on all pairs of small "
               "symbols by MC_Canon")
    mcs = ["2d2", "2d2p", "3d2", "3d2p", "2d3p", "3d3"] if ctx.quick else ["2d2", "2d2p", "3d2", "3d2p", "2d3", "2d3p", "3d3", "3d3p", "4d2", "4d2p", "5d2"]
    for c in mcs:
        ctx.mc("MC_Canon", cfg=f"MC_Canon_{c}", workers=12, universe=f"canonical-form lemmas on the universe of MC_Canon_{c}.cfg")
    paths = universes(ctx, ["c1d2", "k3d2", "k2d3"] if ctx.quick else ["c1d2", "k3d2", "k2d3", "k4d2", "k3d3", "k5d2", "k4d3"])
    ev = ctx.work / "events.ndjson"
    ctx.dsv("C03", "drive", "--out", ev, "--universe", ",".join(paths), "--maxgen", 5 if ctx.quick else 6,
            "--big", 5 if ctx.quick else 25, "--families", 6000 if ctx.quick else 40000, "--branchings", 40 if ctx.quick else 400, timeout=3600)
    for ln in open(ev):
        e = json.loads(ln)
        if e["ev"] == "canonical_family":
            ctx.nontrivial.add(json.dumps(e["members"][0]["in"], sort_keys=True))
            continue
        if e["in"]["n"] >= 2:
            ctx.nontrivial.add(json.dumps(e["in"], sort_keys=True))
    rej = ctx.validate("Trace_C03", ev, shard=600, group_field="grp", xmx="6g")
    ctx.confirm_and_raise("Trace_C03", rej, context_of=group_context)


def group_context(shard, at):
    """all earlier events of the same size group (the workspace the rejected event was judged against)"""
    import re
    g = re.search(r'"grp":"([^"]*)"', shard[at - 1]).group(1)
    return [ln for ln in shard[:at] if f'"grp":"{g}"' in ln]


def replay(ctx, path):
    ctx.build()
    rej = ctx.validate("Trace_C03", path, shard=10**9)
    ctx.confirm_and_raise("Trace_C03", rej, context_of=lambda shard, at: shard[:at])

"""C15 — toroidal and pseudo-toroidal covers are branch-free tori."""
import json
from vlib import Violation, ToolError, log

RULE = ("events = toroidal_cover of every euclidean 2-D symbol up to a size bound; pseudo_toroidal_cover of the 17 corpus "
        "symbols, of the prisms over euclidean 2-D symbols built by Prism.tla with their 2-sheeted covers (euclidean by construction), and of all 3-D symbols of the domain with <= 3 chambers (thorough: plus a seeded sample of 4 chambers), each with a renumbering "
        "and the dual; non-trivial = event whose cover has >= 2 sheets")


def run(ctx):
    ctx.build()
    ctx.assume("classification of closed surfaces (oriented, no boundary, one handle = torus)",
               "H1 of the large covers is computed by the specification's Smith form on the library's presentation "
               "(fundamental_group is C09's responsibility)")
    prisms = prism_files(ctx)
    ev = ctx.work / "events.ndjson"
    if ctx.quick:
        ctx.dsv("C15", "drive", "--out", ev, "--max2d", 5, "--max3d", 3, "--permille", 1000,
                "--prisms", prisms, "--prism-cap", 300, "--prism-over", 8, timeout=7200)
    else:
        ctx.dsv("C15", "drive", "--out", ev, "--max2d", 6, "--max3d", 4, "--permille", 150,
                "--prisms", prisms, "--prism-cap", 3000, "--prism-over", 9, timeout=14400)
    for ln in open(ev):
        e = json.loads(ln)
        if "cov" in e and e["cov"]["n"] > e["sym"]["n"]:
            ctx.nontrivial.add(json.dumps(e["sym"], sort_keys=True))
    rej = ctx.validate("Trace_C15", ev, shard=25, xmx="6g", timeout=7200)
    ctx.confirm_and_raise("Trace_C15", rej)


def prism_files(ctx):
    """spec -> impl: prisms over the euclidean 2-D symbols of a TLC universe (Prism.tla, lemma MC_Prism): known-euclidean
    3-D symbols by construction; the harness adds their 2-sheeted covers"""
    cfgs = ["1", "2"] if ctx.quick else ["1", "2", "3"]
    for c in (["1", "2"] if ctx.quick else ["1", "2", "3"]):
        ctx.mc("MC_Prism", cfg=f"MC_Prism_{c}", workers=8, universe=f"prism construction valid on the universe of MC_Prism_{c}.cfg")
    paths = []
    for c in cfgs:
        p, n = ctx.gen("Gen_Prism", f"prisms_{c}.ndjson", cfg=f"Gen_Prism_{c}")
        paths.append(str(p))
    return ",".join(paths)


def replay(ctx, path):
    ctx.build()
    rej = ctx.validate("Trace_C15", path, shard=10**9, xmx="6g")
    ctx.confirm_and_raise("Trace_C15", rej)

"""C02 — basic D-set queries agree with their definitions in every representation."""
import json
from vlib import Violation, ToolError, log

RULE = ("events = one 'sym' event per symbol (answers of every representation to op/r/v/m on all index pairs and "
        "chambers incl. out-of-range, and the five predicates) and one 'trav' event per (symbol, representation, "
        "index subset, seed list); universes of small D-sets/D-symbols are enumerated by TLC (Gen_DSyms); "
        "non-trivial = distinct symbol with >= 2 chambers")

QUICK_UNIVERSES = ["p2d2", "p3d1", "p2d3", "c1d2", "c2d2", "c3d2", "c2d1", "c3d1", "c1d3", "c2d3", "c3d3"]
THOROUGH_UNIVERSES = QUICK_UNIVERSES + ["c4d2", "c4d1", "k4d2", "k3d3"]


def universes(ctx, names):
    paths = []
    for u in names:
        p, n = ctx.gen("Gen_DSyms", f"u_{u}.ndjson", cfg=f"Gen_DSyms_{u}", xmx="8g")
        ctx.exhaustive_universes.append(f"Gen_DSyms_{u}.cfg ({n} D-sets/D-symbols)")
        paths.append(str(p))
    return paths


def run(ctx):
    ctx.build()
    # 1. the traversal machine obeys the laws of the statement on every small partial D-set
    mcs = ["MC_Traversal_2_2", "MC_Traversal_3_1", "MC_Traversal_3_2c"] if ctx.quick else \
          ["MC_Traversal_2_2", "MC_Traversal_3_1", "MC_Traversal_3_2c", "MC_Traversal_3_2", "MC_Traversal_2_3", "MC_Traversal_3_3c", "MC_Traversal_4_2c"]
    for cfg in mcs:
        ctx.mc("MC_Traversal", cfg=cfg, workers=12, universe=f"traversal machine, all D-sets/index sets/seed lists of {cfg}.cfg")
    # 2. universes -> code -> trace validation
    paths = universes(ctx, QUICK_UNIVERSES if ctx.quick else THOROUGH_UNIVERSES)
    ev = ctx.work / "events.ndjson"
    ctx.dsv("C02", "drive", "--out", ev, "--universe", ",".join(paths), "--maxgen", 5 if ctx.quick else 6, "--preds-max", 8 if ctx.quick else 9, "--preds-renumberings", 8 if ctx.quick else 20, timeout=3600)
    for ln in open(ev):
        if ln.startswith('{"ev":"sym"') or '"ev":"sym"' in ln[:40]:
            e = json.loads(ln)
            if e["sym"]["n"] >= 2:
                ctx.nontrivial.add(json.dumps(e["sym"], sort_keys=True))
    rej = ctx.validate("Trace_C02", ev, shard=1500)
    ctx.confirm_and_raise("Trace_C02", rej)


def replay(ctx, path):
    ctx.build()
    rej = ctx.validate("Trace_C02", path, shard=10**9)
    ctx.confirm_and_raise("Trace_C02", rej)

//! C04 — minimal image, minimality test, automorphisms, morphism search.
use crate::common::*;
use crate::corpus::*;
use rand::prelude::*;
use rust_dsymbols::derived::*;
use rust_dsymbols::dsets::*;
use rust_dsymbols::dsyms::*;
use serde_json::{json, Value};

fn minimal_event(s: &PartialDSym, base_out: Option<&PartialDSym>) -> (Value, Option<PartialDSym>) {
    let mut e = json!({"ev": "minimal", "in": dsym_json(s)});
    pending(&e);
    with_decoy(s, |d| { let _ = (minimal_image(d), d.is_minimal()); });
    match catch(|| (minimal_image(s), s.is_minimal())) {
        Ok((o, b)) => {
            e["out"] = dsym_json(&o); e["ismin"] = json!(b);
            if let Some(bo) = base_out { e["base_out"] = dsym_json(bo); }
            (e, Some(o))
        }
        Err(m) => { e["panic"] = json!(m); (e, None) }
    }
}

fn auts_event(s: &PartialDSym) -> Value {
    let mut e = json!({"ev": "auts", "in": dsym_json(s)});
    pending(&e);
    with_decoy(s, |d| { let _ = d.automorphisms(); });
    match catch(|| s.automorphisms()) {
        Ok(a) => { e["auts"] = json!(a.iter().map(|m| m[1..].to_vec()).collect::<Vec<_>>()); }
        Err(m) => { e["panic"] = json!(m); }
    }
    e
}

/// morphism(src, dst, x) for every candidate base image x
fn morph_event(src: &PartialDSym, dst: &PartialDSym, how: &str) -> Value {
    let mut e = json!({"ev": "morph", "how": how, "src": dsym_json(src), "dst": dsym_json(dst)});
    pending(&e);
    match catch(|| (1..=dst.size()).map(|x| src.morphism(dst, x).map(|m| m[1..].to_vec()).unwrap_or_default()).collect::<Vec<_>>()) {
        Ok(r) => { e["res"] = json!(r); }
        Err(m) => { e["panic"] = json!(m); }
    }
    e
}

/// class function (chamber -> least chamber of its class) of a partition, read off with find()
fn cls_of(p: &rust_dsymbols::util::partitions::Partition<usize>, n: usize) -> Vec<usize> {
    let reps: Vec<usize> = (1..=n).map(|c| p.find(&c)).collect();
    (0..n).map(|c| (0..n).find(|&x| reps[x] == reps[c]).unwrap() + 1).collect()
}

/// fold(p0, d, e) for p0 = trivial partition and p0 = result of an earlier successful fold
fn fold_events(sink: &mut Sink, s: &PartialDSym, rng: &mut StdRng) {
    use rust_dsymbols::util::partitions::Partition;
    let n = s.size();
    let sj = dsym_json(s);
    let mut pairs: Vec<(usize, usize)> = (1..=n).flat_map(|d| (1..=n).map(move |e| (d, e))).filter(|&(d, e)| d != e).collect();
    if n > 4 { pairs.shuffle(rng); pairs.truncate(8); }
    let mut chained: Option<Partition<usize>> = None;
    for (d, e) in pairs {
        for use_chain in [false, true] {
            let p0 = if use_chain { match &chained { Some(p) => p.clone(), None => continue } } else { Partition::new() };
            let mut ev = json!({"ev": "fold", "sym": sj, "d": d, "e": e, "p0": cls_of(&p0, n)});
            pending(&ev);
            match catch(|| s.fold(&p0, d, e)) {
                Ok(Some(p)) => { ev["ok"] = json!(true); ev["cls"] = json!(cls_of(&p, n)); if !use_chain && chained.is_none() && rng.gen_bool(0.5) { chained = Some(p); } }
                Ok(None) => { ev["ok"] = json!(false); ev["cls"] = json!([]); }
                Err(m) => { ev["panic"] = json!(m); }
            }
            sink.emit(ev);
        }
    }
}

pub fn drive(args: &[String]) {
    let out = arg(args, "--out").unwrap();
    let files = arg(args, "--universe").unwrap_or_default();
    let maxgen = arg_usize(args, "--maxgen", 5);
    let mut sink = Sink::create(&out);
    let mut rng = rng(4);
    let mut corpus: Vec<PartialDSym> = syms_from_files(&files).into_iter().filter(|s| s.is_connected()).collect();
    corpus.extend(generated_2d_reach(maxgen, 7, 200, &mut rng).into_iter().filter(|s| s.size() >= 4));
    let t3 = sets_with_branching(3, 3, &[1, 2, 3], 3, &mut rng);
    corpus.extend(t3);
    let mut prev: Option<PartialDSym> = None;
    for s in &corpus {
        let (e, o) = minimal_event(s, None);
        sink.emit(e);
        sink.emit(auts_event(s));
        sink.emit(morph_event(s, s, "self"));
        if s.size() >= 2 && (s.size() <= 3 || rng.gen_bool(0.4)) { fold_events(&mut sink, s, &mut rng); }
        if let Some(o) = &o {
            if o.size() < s.size() { sink.emit(morph_event(s, o, "onto minimal image")); sink.emit(morph_event(o, s, "from minimal image")); }
        }
        // an unrelated symbol of the same dimension (mostly no morphism; sometimes one)
        if let Some(p) = &prev { if p.dim() == s.dim() && rng.gen_bool(0.3) { sink.emit(morph_event(s, p, "unrelated")); } }
        // covers with 2 (small symbols: 3) sheets and a renumbering
        if s.size() <= 6 && rng.gen_bool(if s.size() <= 3 { 1.0 } else { 0.35 }) {
            let k = if s.size() <= 2 { 3 } else { 2 };
            let mut cs = small_covers(s, k);
            cs.shuffle(&mut rng);
            for c in cs.into_iter().take(2) {
                let c = if rng.gen_bool(0.5) { renumber(&c, &rand_perm(c.size(), &mut rng)) } else { c };
                let (e, _) = minimal_event(&c, o.as_ref());
                sink.emit(e);
                sink.emit(morph_event(&c, s, "cover onto base"));
                if rng.gen_bool(0.3) { sink.emit(auts_event(&c)); }
            }
        }
        prev = Some(s.clone());
    }
    sink.flush();
    println!("{}", json!({"events": sink.n}));
}

//! C06 — D-set generator; C07 — D-symbol generator.
use crate::common::*;
use rust_dsymbols::dsets::*;
use rust_dsymbols::dsyms::*;
use rust_dsymbols::generators::dset_generators::DSets;
use rust_dsymbols::generators::dsym_generators::{DSyms, Geometries};
use serde_json::{json, Value};

pub fn drive_c06(args: &[String]) {
    let out = arg(args, "--out").unwrap();
    let runs = arg(args, "--runs").unwrap_or("1:5,2:4,3:3".into());
    let mut sink = Sink::create(&out);
    for r in runs.split(',') {
        // "3:8u": beyond the bound of the specification's universe; the history is still judged for validity,
        // numbering and pairwise non-isomorphism of everything emitted, only the completeness half is dropped
        let (d, m) = r.split_once(':').unwrap();
        let full = !m.ends_with('u');
        // "3:10v": validity only (a complete, connected D-set with commuting non-adjacent operations within the bound),
        // every output judged on its own in chunks that are validated in parallel
        if m.ends_with('v') {
            let (dim, max): (usize, usize) = (d.parse().unwrap(), m.trim_end_matches('v').parse().unwrap());
            let hdr = json!({"ev": "dset_valid", "dim": dim, "max": max});
            pending(&hdr);
            match catch(|| DSets::new(dim, max).map(|s| dset_json(&s)).collect::<Vec<_>>()) {
                Ok(list) => { for (k, j) in list.into_iter().enumerate() { sink.emit(json!({"ev": "dset_valid", "grp": format!("d{dim}m{max}v{}", k / 2500), "dim": dim, "max": max, "set": j})); } }
                Err(msg) => { sink.emit(json!({"ev": "dset_valid", "grp": format!("d{dim}m{max}v0"), "panic": msg})); }
            }
            continue;
        }
        let (dim, max): (usize, usize) = (d.parse().unwrap(), m.trim_end_matches('u').parse().unwrap());
        let grp = format!("d{dim}m{max}{}", if full { "" } else { "u" });
        let hdr = json!({"ev": "dset_header", "grp": grp, "dim": dim, "max": max, "full": full});
        pending(&hdr);
        sink.emit(hdr);
        match catch(|| DSets::new(dim, max).map(|s| (s.set_count(), dset_json(&s))).collect::<Vec<_>>()) {
            Ok(list) => { for (c, j) in list { sink.emit(json!({"ev": "dset_emit", "grp": grp, "count": c, "set": j})); } }
            Err(m) => { sink.emit(json!({"ev": "dset_emit", "grp": grp, "panic": m})); }
        }
        sink.emit(json!({"ev": "dset_end", "grp": grp}));
    }
    sink.flush();
    println!("{}", json!({"events": sink.n}));
}

fn vs<T: DSym>(s: &T) -> Vec<Vec<usize>> {
    (0..s.dim()).map(|i| (1..=s.size()).map(|d| s.v(i, i + 1, d).unwrap_or(0)).collect()).collect()
}
fn ops<T: DSet>(s: &T) -> Vec<Vec<usize>> {
    (0..=s.dim()).map(|i| (1..=s.size()).map(|d| s.op(i, d).unwrap_or(0)).collect()).collect()
}

pub fn drive_c07(args: &[String]) {
    let out = arg(args, "--out").unwrap();
    let max = arg_usize(args, "--max", 4);
    let mut sink = Sink::create(&out);
    for dset in DSets::new(2, max) {
        let mut e = json!({"ev": "dsym_run", "n": dset.size(), "op": ops(&dset)});
        pending(&e);
        let list = |g: Geometries| -> Result<Value, String> {
            catch(|| json!(DSyms::new(&dset, g).map(|s| json!({"count": s.symbol_count(), "op": ops(&s), "v": vs(&s), "complete": s.is_complete()})).collect::<Vec<_>>()))
        };
        for (name, g) in [("euc", Geometries::Euclidean), ("hyp", Geometries::Hyperbolic), ("sph", Geometries::Spherical), ("all", Geometries::All)] {
            match list(g) { Ok(v) => e[name] = v, Err(m) => { e["panic"] = json!(format!("{name}: {m}")); } }
        }
        sink.emit(e);
    }
    sink.flush();
    println!("{}", json!({"events": sink.n}));
}

// ------------------------------------------------------------------ the generic backtracking iterator on explicit trees

struct DataTree { kids: Vec<Vec<usize>>, ex: Vec<bool>, visited: std::cell::RefCell<Vec<usize>> }

impl rust_dsymbols::util::backtrack::BackTracking for DataTree {
    type State = usize;
    type Item = usize;
    fn root(&self) -> usize { 1 }
    fn extract(&self, s: &usize) -> Option<usize> { if self.ex[*s - 1] { Some(*s) } else { None } }
    fn children(&self, s: &usize) -> Vec<usize> { self.visited.borrow_mut().push(*s); self.kids[*s - 1].clone() }
}

/// spec -> impl: TLC-generated trees with the sequence BackTrack.tla says the iterator emits
pub fn replay_backtrack(args: &[String]) {
    use rust_dsymbols::util::backtrack::BackTrackIterator;
    let cases = read_lines(&args[0]);
    let mut bad: Vec<Value> = vec![];
    let mut conf: Vec<String> = vec![];
    let mut nontrivial = 0;
    for c in &cases {
        let kids: Vec<Vec<usize>> = c["kids"].as_array().unwrap().iter().map(|k| k.as_array().unwrap().iter().map(|x| x.as_u64().unwrap() as usize).collect()).collect();
        let ex: Vec<bool> = c["ex"].as_array().unwrap().iter().map(|x| x.as_bool().unwrap()).collect();
        let want: Vec<usize> = c["out"].as_array().unwrap().iter().map(|x| x.as_u64().unwrap() as usize).collect();
        if kids.len() >= 3 { nontrivial += 1; }
        let r = catch(|| {
            let it = BackTrackIterator::new(DataTree { kids: kids.clone(), ex: ex.clone(), visited: Default::default() });
            it.take(10 * kids.len() + 10).collect::<Vec<usize>>()
        });
        match r {
            Err(m) => { if bad.len() < 5 { bad.push(json!({"panic": m, "case": c})); } }
            Ok(got) => {
                let (mut a, mut b) = (got.clone(), want.clone()); a.sort(); b.sort();
                if a != b { if bad.len() < 5 { bad.push(json!({"what": "every extractable node exactly once", "got": got, "case": c})); } }
                else if got != want { conf.push(format!("emission order {:?} differs from depth-first pre-order {:?}", got, want)); }
            }
        }
    }
    conf.truncate(5);
    println!("{}", json!({"cases": cases.len(), "comparisons": cases.len(), "nontrivial": nontrivial, "mismatches": bad, "conformance": conf, "sample": cases.get(cases.len() / 2)}));
}

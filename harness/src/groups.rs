//! The group corpus shared by C11, C12, C13: classical finite presentations with permutation
//! models written as data (verified by the specification, not trusted), infinite presentations
//! for the low-index enumeration, and orbifold groups of small D-symbols.
#![allow(dead_code)]
use rust_dsymbols::fpgroups::cosets::CosetTable;
use rust_dsymbols::fpgroups::free_words::FreeWord;
use serde_json::{json, Value};

pub struct Grp {
    pub name: String,
    pub ng: usize,
    pub rels: Vec<Vec<isize>>,
    pub order: usize,            // 0 = infinite / unknown
    pub act: Vec<Vec<usize>>,    // per generator a permutation of 1..N (1-based images), empty if none
}

fn cyc(n: usize, cycles: &[&[usize]]) -> Vec<usize> {
    let mut p: Vec<usize> = (1..=n).collect();
    for c in cycles { for k in 0..c.len() { p[c[k] - 1] = c[(k + 1) % c.len()]; } }
    p
}

fn g(name: &str, ng: usize, rels: &[&[isize]], order: usize, act: Vec<Vec<usize>>) -> Grp {
    Grp { name: name.into(), ng, rels: rels.iter().map(|r| r.to_vec()).collect(), order, act }
}

/// regular representation of Q8 = {1,-1,i,-i,j,-j,k,-k}: right multiplication by i and by j
fn q8_act() -> Vec<Vec<usize>> {
    // elements encoded as (sign, unit) with unit 0=1,1=i,2=j,3=k; index = 2*unit + (sign<0) + 1
    let mul = |a: (i32, usize), b: (i32, usize)| -> (i32, usize) {
        let t: [[(i32, usize); 4]; 4] = [
            [(1, 0), (1, 1), (1, 2), (1, 3)],
            [(1, 1), (-1, 0), (1, 3), (-1, 2)],
            [(1, 2), (-1, 3), (-1, 0), (1, 1)],
            [(1, 3), (1, 2), (-1, 1), (-1, 0)]];
        let (s, u) = t[a.1][b.1];
        (a.0 * b.0 * s, u)
    };
    let idx = |e: (i32, usize)| 2 * e.1 + if e.0 < 0 { 1 } else { 0 } + 1;
    let elems: Vec<(i32, usize)> = (0..4).flat_map(|u| [(1, u), (-1, u)]).collect();
    [(1, 1), (1, 2)].iter().map(|&x| { let mut p = vec![0; 8]; for &e in &elems { p[idx(e) - 1] = idx(mul(e, x)); } p }).collect()
}

pub fn finite_corpus() -> Vec<Grp> {
    vec![
        g("trivial", 1, &[&[1]], 1, vec![cyc(1, &[])]),
        g("Z2", 1, &[&[1, 1]], 2, vec![cyc(2, &[&[1, 2]])]),
        g("Z6", 1, &[&[1, 1, 1, 1, 1, 1]], 6, vec![cyc(6, &[&[1, 2, 3, 4, 5, 6]])]),
        g("Klein", 2, &[&[1, 1], &[2, 2], &[1, 2, 1, 2]], 4, vec![cyc(4, &[&[1, 2]]), cyc(4, &[&[3, 4]])]),
        g("S3", 2, &[&[1, 1], &[2, 2], &[1, 2, 1, 2, 1, 2]], 6, vec![cyc(3, &[&[1, 2]]), cyc(3, &[&[2, 3]])]),
        g("Z4xZ2", 2, &[&[1, 1, 1, 1], &[2, 2], &[1, 2, -1, -2]], 8, vec![cyc(6, &[&[1, 2, 3, 4]]), cyc(6, &[&[5, 6]])]),
        g("Z3xZ3", 2, &[&[1, 1, 1], &[2, 2, 2], &[1, 2, -1, -2]], 9, vec![cyc(6, &[&[1, 2, 3]]), cyc(6, &[&[4, 5, 6]])]),
        g("Q8", 2, &[&[1, 1, -2, -2], &[-2, 1, 2, 1]], 8, q8_act()),
        g("D4", 2, &[&[1, 1, 1, 1], &[2, 2], &[1, 2, 1, 2]], 8, vec![cyc(4, &[&[1, 2, 3, 4]]), cyc(4, &[&[1, 3]])]),
        g("D5", 2, &[&[1, 1, 1, 1, 1], &[2, 2], &[1, 2, 1, 2]], 10, vec![cyc(5, &[&[1, 2, 3, 4, 5]]), cyc(5, &[&[2, 5], &[3, 4]])]),
        g("D6", 2, &[&[1, 1, 1, 1, 1, 1], &[2, 2], &[1, 2, 1, 2]], 12, vec![cyc(6, &[&[1, 2, 3, 4, 5, 6]]), cyc(6, &[&[2, 6], &[3, 5]])]),
        g("A4", 2, &[&[1, 1], &[2, 2, 2], &[1, 2, 1, 2, 1, 2]], 12, vec![cyc(4, &[&[1, 2], &[3, 4]]), cyc(4, &[&[1, 2, 3]])]),
        g("A4b", 2, &[&[1, 1, 1], &[2, 2, 2], &[1, -2, 1, -2]], 12, vec![cyc(4, &[&[1, 2, 3]]), cyc(4, &[&[1, 3, 4]])]),
        g("S4", 2, &[&[1, 1], &[2, 2, 2], &[1, 2, 1, 2, 1, 2, 1, 2]], 24, vec![cyc(4, &[&[1, 2]]), cyc(4, &[&[2, 3, 4]])]),
        g("A5", 2, &[&[1, 1], &[2, 2, 2], &[1, 2, 1, 2, 1, 2, 1, 2, 1, 2]], 60, vec![cyc(5, &[&[1, 2], &[3, 4]]), cyc(5, &[&[1, 3, 5]])]),
        g("Z2^3", 3, &[&[1, 1], &[2, 2], &[3, 3], &[1, 2, 1, 2], &[1, 3, 1, 3], &[2, 3, 2, 3]], 8,
          vec![cyc(6, &[&[1, 2]]), cyc(6, &[&[3, 4]]), cyc(6, &[&[5, 6]])]),
        g("Coxeter A3", 3, &[&[1, 1], &[2, 2], &[3, 3], &[1, 2, 1, 2, 1, 2], &[2, 3, 2, 3, 2, 3], &[1, 3, 1, 3]], 24,
          vec![cyc(4, &[&[1, 2]]), cyc(4, &[&[2, 3]]), cyc(4, &[&[3, 4]])]),
        g("Coxeter B3", 3, &[&[1, 1], &[2, 2], &[3, 3], &[1, 2, 1, 2, 1, 2], &[2, 3, 2, 3, 2, 3, 2, 3], &[1, 3, 1, 3]], 48,
          vec![cyc(6, &[&[1, 2], &[4, 5]]), cyc(6, &[&[2, 3], &[5, 6]]), cyc(6, &[&[3, 6]])]),
        // SL(2,3) (order 24), acting on the 8 non-zero vectors of F_3^2; the two presentations differ only in the names of the
        // generators.  The enumeration of the first one over the trivial subgroup runs into the library's limit of 100 000 rows
        // (known finding, KNOWN_FINDINGS.txt): definitions are made faster than the coincidences that would collapse them are found
        g("SL(2,3) <a,b | b a^-1 b a b^-1 a, b^3>", 2, &[&[2, -1, 2, 1, -2, 1], &[2, 2, 2]], 24, vec![vec![8, 4, 1, 6, 5, 2, 7, 3], vec![5, 7, 2, 4, 6, 1, 3, 8]]),
        g("SL(2,3) <a,b | a b^-1 a b a^-1 b, a^3>", 2, &[&[1, -2, 1, 2, -1, 2], &[1, 1, 1]], 24, vec![vec![5, 7, 2, 4, 6, 1, 3, 8], vec![8, 4, 1, 6, 5, 2, 7, 3]]),
        // presentations with a relator of length one (a generator that is trivial): deductions fill the table out of
        // row-major order, which is what canonicity pruning of PARTIAL tables has to survive
        g("Z4 with a trivial generator", 2, &[&[1], &[2, 2, 2, 2]], 4, vec![cyc(4, &[]), cyc(4, &[&[1, 2, 3, 4]])]),
        g("Z4 with a trivial generator (second)", 2, &[&[2], &[1, 1, 1, 1]], 4, vec![cyc(4, &[&[1, 2, 3, 4]]), cyc(4, &[])]),
        g("S3 with a trivial generator", 3, &[&[3], &[1, 1], &[2, 2], &[1, 2, 1, 2, 1, 2]], 6, vec![cyc(3, &[&[1, 2]]), cyc(3, &[&[2, 3]]), cyc(3, &[])]),
        g("Z6 as <a,b,c | a, b^2 c^-1, c^3>", 3, &[&[1], &[2, 2, -3], &[3, 3, 3]], 6, vec![cyc(6, &[]), cyc(6, &[&[1, 2, 3, 4, 5, 6]]), cyc(6, &[&[1, 3, 5], &[2, 4, 6]])]),
        g("Coxeter I2(4)xA1", 3, &[&[1, 1], &[2, 2], &[3, 3], &[1, 2, 1, 2, 1, 2, 1, 2], &[1, 3, 1, 3], &[2, 3, 2, 3]], 16,
          vec![cyc(6, &[&[1, 3]]), cyc(6, &[&[1, 2], &[3, 4]]), cyc(6, &[&[5, 6]])]),
    ]
}

/// presentations for the low-index enumeration (order 0 = infinite)
pub fn infinite_corpus() -> Vec<Grp> {
    vec![
        g("F1", 1, &[], 0, vec![]),
        g("F2", 2, &[], 0, vec![]),
        g("F3", 3, &[], 0, vec![]),
        g("Z^2", 2, &[&[1, 2, -1, -2]], 0, vec![]),
        g("Z^3", 3, &[&[1, 2, -1, -2], &[1, 3, -1, -3], &[2, 3, -2, -3]], 0, vec![]),
        g("Klein bottle", 2, &[&[1, 2, 1, -2]], 0, vec![]),
        g("genus 2 surface", 4, &[&[1, 2, -1, -2, 3, 4, -3, -4]], 0, vec![]),
        g("triangle(2,3,inf)", 2, &[&[1, 1], &[2, 2, 2]], 0, vec![]),
        g("triangle(2,4,4)", 2, &[&[1, 1], &[2, 2, 2, 2], &[1, 2, 1, 2, 1, 2, 1, 2]], 0, vec![]),
        g("Coxeter(4,4,4)", 3, &[&[1, 1], &[2, 2], &[3, 3], &[1, 2, 1, 2, 1, 2, 1, 2], &[2, 3, 2, 3, 2, 3, 2, 3], &[1, 3, 1, 3, 1, 3, 1, 3]], 0, vec![]),
        g("BS(1,2)", 2, &[&[1, 2, -1, -2, -2]], 0, vec![]),
        g("Z2*Z2", 2, &[&[1, 1], &[2, 2]], 0, vec![]),
        g("<a,b|a^2>", 2, &[&[1, 1]], 0, vec![]),
        g("Z as <a,b,c | a, b^2 c^-1>", 3, &[&[1], &[2, 2, -3]], 0, vec![]),
        g("Z2 with an empty relator", 1, &[&[1, 1], &[1, -1]], 0, vec![]),
    ]
}

pub fn words(v: &[Vec<isize>]) -> Vec<FreeWord> { v.iter().map(|w| FreeWord::new(w.iter().cloned())).collect() }

pub fn table_json(t: &CosetTable) -> Value {
    let img: Vec<Vec<i64>> = (0..t.len()).map(|r| t.all_gens().iter().map(|&g| t.get(r, g).map(|x| x as i64).unwrap_or(-1)).collect()).collect();
    json!({"gens": t.nr_gens(), "img": img})
}

pub fn table_as_act(t: &CosetTable) -> Vec<Vec<usize>> {
    (1..=t.nr_gens() as isize).map(|g| (0..t.len()).map(|r| t.get(r, g).map(|x| x + 1).unwrap_or(0)).collect()).collect()
}

/// all reduced words of length <= len over ng generators
pub fn short_words(ng: usize, len: usize) -> Vec<Vec<isize>> {
    let letters: Vec<isize> = (1..=ng as isize).flat_map(|g| [g, -g]).collect();
    let mut out: Vec<Vec<isize>> = vec![vec![]];
    let mut layer: Vec<Vec<isize>> = vec![vec![]];
    for _ in 0..len {
        let mut next = vec![];
        for w in &layer { for &l in &letters { if w.last() != Some(&-l) { let mut x = w.clone(); x.push(l); next.push(x); } } }
        out.extend(next.iter().cloned());
        layer = next;
    }
    out
}

//! C19 — minimum cuts.
use crate::common::*;
use rand::prelude::*;
use rust_dsymbols::util::cutsets::*;
use serde_json::{json, Value};

/// run the four entry points on one (graph, source, sink) and record what they return
fn emit(sink: &mut Sink, edges: &Vec<(usize, usize)>, s: usize, t: usize, tag: &str) {
    let el: Vec<Vec<usize>> = edges.iter().map(|&(a, b)| vec![a, b]).collect();
    for und in [false, true] {
        let base = json!({"ev": "cut", "undirected": und, "edges": el, "s": s, "t": t, "src": tag});
        let e2 = edges.clone();
        let mut e = base.clone();
        e["kind"] = json!("edge");
        pending(&e);
        match catch(|| if und { min_edge_cut_undirected(e2, s, t) } else { min_edge_cut(e2, s, t) }) {
            Ok(c) => { e["cut"] = json!(c.cut_edges.iter().map(|&(a, b)| vec![a, b]).collect::<Vec<_>>()); e["inside"] = json!(c.inside_vertices); }
            Err(m) => { e["panic"] = json!(m); }
        }
        sink.emit(e);
        // vertex cuts are specified only when source and sink are not joined by an edge
        let adjacent = edges.contains(&(s, t)) || (und && edges.contains(&(t, s)));
        if !adjacent {
            let e2 = edges.clone();
            let mut e = base.clone();
            e["kind"] = json!("vertex");
            pending(&e);
            match catch(|| if und { min_vertex_cut_undirected(e2, s, t) } else { min_vertex_cut(e2, s, t) }) {
                Ok(c) => { e["cut"] = json!(c.cut_vertices); e["inside"] = json!(c.inside_vertices); }
                Err(m) => { e["panic"] = json!(m); }
            }
            sink.emit(e);
        }
    }
}

fn edges_of(c: &Value) -> Vec<(usize, usize)> {
    c["edges"].as_array().unwrap().iter().map(|p| (p[0].as_u64().unwrap() as usize, p[1].as_u64().unwrap() as usize)).collect()
}

/// spec -> impl -> spec: run the code on the TLC-enumerated universe (optionally a seeded
/// sample of it, and with seeded relabellings of the vertices)
pub fn replay(args: &[String]) {
    let cases = read_lines(&args[0]);
    let out = arg(args, "--out").unwrap();
    let permille = arg_usize(args, "--permille", 1000);
    let relabel = arg_usize(args, "--relabel", 0);
    let mut sink = Sink::create(&out);
    let mut rng = rng(19);
    let mut used = 0;
    for c in &cases {
        if permille < 1000 && rng.gen_range(0..1000) >= permille { continue; }
        used += 1;
        let edges = edges_of(c);
        let s = c["s"].as_u64().unwrap() as usize;
        let t = c["t"].as_u64().unwrap() as usize;
        emit(&mut sink, &edges, s, t, "tlc");
        for _ in 0..relabel {
            // injective relabelling into 1..=12 (exercises the ordering-dependent parts: BTreeSet order, offset)
            let mut names: Vec<usize> = (1..=12).collect();
            names.shuffle(&mut rng);
            let f = |v: usize| names[v - 1];
            let e2: Vec<(usize, usize)> = edges.iter().map(|&(a, b)| (f(a), f(b))).collect();
            emit(&mut sink, &e2, f(s), f(t), "tlc-relabelled");
        }
    }
    sink.flush();
    println!("{}", json!({"cases": used, "events": sink.n}));
}

/// impl -> spec: random graphs up to 9 vertices / 16 edges
pub fn drive(args: &[String]) {
    let out = arg(args, "--out").unwrap();
    let n = arg_usize(args, "--graphs", 200);
    let mut sink = Sink::create(&out);
    let mut rng = rng(191);
    for _ in 0..n {
        let nv = rng.gen_range(4..=9usize);
        let ne = rng.gen_range(3..=16usize);
        let mut edges = vec![];
        for _ in 0..ne {
            let a = rng.gen_range(1..=nv);
            let b = rng.gen_range(1..=nv);
            if a != b && !edges.contains(&(a, b)) { edges.push((a, b)); }
        }
        let s = rng.gen_range(1..=nv);
        let mut t = rng.gen_range(1..=nv);
        if t == s { t = s % nv + 1; }
        emit(&mut sink, &edges, s, t, "random");
    }
    // layered networks with bottlenecks and skip arcs (source -> layers of width 1..3 -> sink, arcs between consecutive layers
    // with probability 0.8, arcs skipping one layer with probability 0.35), randomly relabelled: several flow paths meet in
    // one vertex and maximum flows need re-routing through backward arcs - the hard case of every augmenting-path method
    let nl = arg_usize(args, "--layered", 0);
    for _ in 0..nl {
        let depth = rng.gen_range(2..=4usize);
        let mut layers: Vec<Vec<usize>> = vec![vec![1]];
        let mut next = 2;
        for _ in 0..depth { let w = *[1usize, 1, 2, 2, 3].choose(&mut rng).unwrap(); layers.push((next..next + w).collect()); next += w; }
        layers.push(vec![next]);
        let nv = next;
        if nv > 9 { continue; }
        let mut edges: Vec<(usize, usize)> = vec![];
        for k in 0..layers.len() - 1 {
            for &a in &layers[k] { for &b in &layers[k + 1] { if rng.gen_bool(0.8) { edges.push((a, b)); } } }
            if k + 2 < layers.len() { for &a in &layers[k] { for &b in &layers[k + 2] { if rng.gen_bool(0.35) { edges.push((a, b)); } } } }
        }
        if rng.gen_bool(0.3) { let a = rng.gen_range(2..nv); let b = rng.gen_range(2..nv); if a != b && !edges.contains(&(a, b)) { edges.push((a, b)); } }
        if edges.is_empty() || edges.len() > 16 { continue; }
        let mut names: Vec<usize> = (1..=nv).collect();
        names.shuffle(&mut rng);
        let f = |v: usize| names[v - 1];
        let e2: Vec<(usize, usize)> = edges.iter().map(|&(a, b)| (f(a), f(b))).collect();
        emit(&mut sink, &e2, f(1), f(nv), "layered");
    }
    sink.flush();
    println!("{}", json!({"events": sink.n}));
}

// ------------------------------------------------------------------ hooked runs (cfg rust_dsymbols_verif)

#[cfg(rust_dsymbols_verif)]
pub fn drive_hooked(args: &[String]) {
    let out = arg(args, "--out").unwrap();
    let n = arg_usize(args, "--graphs", 300);
    let mut sink = Sink::create(&out);
    let mut rng = rng(192);
    for run in 0..n {
        let nv = rng.gen_range(4..=8usize);
        let p = *[0.25, 0.4, 0.6].choose(&mut rng).unwrap();
        let undirected = run % 2 == 0;
        let mut edges: Vec<(usize, usize)> = vec![];
        for a in 1..=nv { for b in 1..=nv {
            if a < b && rng.gen_bool(p) {
                // undirected entry point: one direction is given; directed: antiparallel pairs are frequent
                if undirected { edges.push(if rng.gen_bool(0.5) { (a, b) } else { (b, a) }); }
                else { match rng.gen_range(0..4) { 0 => edges.push((a, b)), 1 => edges.push((b, a)), _ => { edges.push((a, b)); edges.push((b, a)); } } }
            }
        } }
        let s = rng.gen_range(1..=nv);
        let mut t = rng.gen_range(1..=nv);
        if t == s { t = s % nv + 1; }
        let tag = format!("g{run}");
        let seen: Vec<Vec<usize>> = if undirected { edges.iter().flat_map(|&(a, b)| [vec![a, b], vec![b, a]]).collect() } else { edges.iter().map(|&(a, b)| vec![a, b]).collect() };
        sink.emit(json!({"ev": "header", "run": tag, "edges": seen, "s": s, "t": t, "undirected": undirected}));
        rust_dsymbols::verif::record(true); let _ = rust_dsymbols::verif::take();
        let e2 = edges.clone();
        let r = catch(|| if undirected { min_edge_cut_undirected(e2, s, t) } else { min_edge_cut(e2, s, t) });
        rust_dsymbols::verif::record(false);
        for e in rust_dsymbols::verif::take() {
            let mut v: Value = serde_json::from_str(&e).expect("hook event");
            v["run"] = json!(tag);
            sink.emit(v);
        }
        match r {
            Ok(c) => sink.emit(json!({"ev": "finish", "run": tag, "cut": c.cut_edges.iter().map(|&(a, b)| vec![a, b]).collect::<Vec<_>>(), "inside": c.inside_vertices})),
            Err(m) => sink.emit(json!({"ev": "finish", "run": tag, "panic": m})),
        }
    }
    sink.flush();
    println!("{}", json!({"events": sink.n, "runs": n}));
}

#[cfg(not(rust_dsymbols_verif))]
pub fn drive_hooked(_args: &[String]) {
    println!("{}", json!({"events": 0, "runs": 0, "hooks": "not compiled in"}));
}

//! Corpora of D-symbols shared by the drivers: the TLC-enumerated universes (Gen_DSyms),
//! outputs of the library's generators, and lineage constructions (renumberings, duals, covers).
#![allow(dead_code)]
use crate::common::*;
use rand::prelude::*;
use rust_dsymbols::covers::covers;
use rust_dsymbols::derived::*;
use rust_dsymbols::dsets::*;
use rust_dsymbols::dsyms::*;
use rust_dsymbols::generators::dset_generators::DSets;
use rust_dsymbols::generators::dsym_generators::{DSyms, Geometries};
use serde_json::Value;

/// symbols from files written by Gen_DSyms (comma separated list of paths); entries without
/// "v" are D-sets and are skipped here
pub fn syms_from_files(paths: &str) -> Vec<PartialDSym> {
    let mut out = vec![];
    for p in paths.split(',').filter(|p| !p.is_empty()) {
        for j in read_lines(p) {
            if j.get("v").is_some() && complete_ops(&j) && all_v(&j) {
                out.push(dsym_from_json(&j));
            }
        }
    }
    out
}

/// the prism family written by Gen_Prism: (2-D euclidean symbol as JSON, prism symbol over it); every prism symbol
/// and every connected cover of it with up to `sheets` sheets is euclidean by construction
pub fn prism_family(paths: &str, sheets: usize) -> Vec<(Value, PartialDSym)> {
    let mut out = vec![];
    for p in paths.split(',').filter(|p| !p.is_empty()) {
        for j in read_lines(p) {
            let sym = dsym_from_json(&j["sym"]);
            if sheets >= 2 {
                for c in catch(|| covers(&sym, sheets)).unwrap_or_default() { if c.size() > sym.size() { out.push((j["prism_of"].clone(), c)); } }
            }
            out.push((j["prism_of"].clone(), sym));
        }
    }
    out
}

pub fn all_v(j: &Value) -> bool {
    j["v"].as_array().unwrap().iter().all(|r| r.as_array().unwrap().iter().all(|x| x.as_u64() != Some(0)))
}

pub fn complete_ops(j: &Value) -> bool {
    j["op"].as_array().unwrap().iter().all(|r| r.as_array().unwrap().iter().all(|x| x.as_u64() != Some(0)))
}

/// all outputs of the 2-D generators up to `max` chambers
pub fn generated_2d(max: usize) -> Vec<PartialDSym> {
    let mut out = vec![];
    for dset in DSets::new(2, max) {
        for dsym in DSyms::new(&dset, Geometries::All) {
            out.push(as_partial_dsym(&dsym));
        }
    }
    out
}

/// generator outputs up to `max` chambers plus a seeded sample (permille) of those with max+1 .. top chambers:
/// structures that first occur one or two sizes beyond the exhaustive bound are met with high probability
pub fn generated_2d_reach(max: usize, top: usize, permille: u32, rng: &mut StdRng) -> Vec<PartialDSym> {
    let mut out = vec![];
    for dset in DSets::new(2, top) {
        let keep_all = dset.size() <= max;
        for dsym in DSyms::new(&dset, Geometries::All) {
            if keep_all || rng.gen_range(0..1000) < permille { out.push(as_partial_dsym(&dsym)); }
        }
    }
    out
}

/// connected D-sets of the given dimension with every branching assignment from `vals`
/// on the (i,i+1)-orbits, capped at `cap` symbols per D-set (seeded choice when more)
pub fn sets_with_branching(dim: usize, max: usize, vals: &[usize], cap: usize, rng: &mut StdRng) -> Vec<PartialDSym> {
    let mut out = vec![];
    for dset in DSets::new(dim, max) {
        let base = as_dsym(&dset);
        let mut orbs: Vec<(usize, usize)> = vec![];
        for i in 0..dim { for d in base.orbit_reps_2d(i, i + 1) { orbs.push((i, d)); } }
        let total = (vals.len() as f64).powi(orbs.len() as i32);
        let all = total <= cap as f64;
        let count = if all { total as usize } else { cap };
        for k in 0..count {
            let mut s = base.clone();
            let mut code = k;
            for &(i, d) in &orbs {
                let v = if all { let c = code % vals.len(); code /= vals.len(); vals[c] } else { *vals.choose(rng).unwrap() };
                s.set_v(i, d, v);
            }
            out.push(s);
        }
    }
    out
}

pub fn small_covers<T: DSym>(ds: &T, k: usize) -> Vec<PartialDSym> {
    catch(|| covers(ds, k)).unwrap_or_default().into_iter().filter(|c| c.size() > ds.size()).collect()
}

/// the prism tiling over a 2-D symbol as a 3-D symbol on 3n chambers (the construction of spec/Prism.tla, transcribed;
/// every trace spec that receives one re-builds it with `Prism(S)` and compares)
pub fn prism_over(s: &PartialDSym) -> PartialDSym {
    let n = s.size();
    let idx = |d: usize, k: usize| 3 * (d - 1) + k;
    let mut ds = PartialDSet::new(3 * n, 3);
    let mut put = |i: usize, a: usize, b: usize| { if b >= a { ds.set(i, a, b); } };
    for d in 1..=n {
        let (s0, s1, s2) = (s.op(0, d).unwrap(), s.op(1, d).unwrap(), s.op(2, d).unwrap());
        put(0, idx(d, 1), idx(s0, 1)); put(0, idx(d, 2), idx(s0, 2)); put(0, idx(d, 3), idx(d, 3));
        put(1, idx(d, 1), idx(s1, 1)); put(1, idx(d, 2), idx(d, 3));
        put(2, idx(d, 1), idx(d, 2)); put(2, idx(d, 3), idx(s1, 3));
        put(3, idx(d, 1), idx(d, 1)); put(3, idx(d, 2), idx(s2, 2)); put(3, idx(d, 3), idx(s2, 3));
    }
    let ms: Vec<Vec<usize>> = (0..3).map(|i| (1..=3 * n).map(|c| {
        let (d, k) = ((c - 1) / 3 + 1, (c - 1) % 3 + 1);
        match i { 0 => if k == 1 { s.m(0, 1, d).unwrap() } else { 4 }, 1 => 3, _ => if k == 3 { s.m(1, 2, d).unwrap() } else { 4 } }
    }).collect()).collect();
    let rs: Vec<Vec<usize>> = (0..3).map(|i| (1..=3 * n).map(|c| ds.r(i, i + 1, c).unwrap()).collect()).collect();
    build_sym_using_vs(ds, |i, c| Some(ms[i][c - 1] / rs[i][c - 1]))
}

/// 2-D generator outputs (all three geometries) up to `max` chambers whose branching numbers obey the crystallographic
/// restriction, one per distinct orbifold symbol (the smallest): bases of prisms of every orbifold type
pub fn prism_bases(max: usize) -> Vec<(String, PartialDSym)> {
    let mut seen = std::collections::BTreeSet::new();
    let mut out = vec![];
    for s in generated_2d(max) {
        let ok = (1..=s.size()).all(|d| (0..2).all(|i| matches!(s.v(i, i + 1, d), Some(1 | 2 | 3 | 4 | 6))));
        if !ok { continue; }
        let o = rust_dsymbols::delaney2d::orbifold_symbol(&s);
        if seen.insert(o.clone()) { out.push((o, s)); }
    }
    out
}

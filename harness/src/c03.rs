//! C03 — canonical form.
use crate::common::*;
use crate::corpus::*;
use rand::prelude::*;
use rust_dsymbols::covers::finite_universal_cover;
use rust_dsymbols::delaney2d::{is_euclidean, is_spherical, toroidal_cover};
use rust_dsymbols::derived::*;
use rust_dsymbols::dsets::*;
use rust_dsymbols::dsyms::*;
use serde_json::{json, Value};

fn all_perms(n: usize) -> Vec<Vec<usize>> {
    fn rec(cur: &mut Vec<usize>, used: &mut Vec<bool>, n: usize, out: &mut Vec<Vec<usize>>) {
        if cur.len() == n + 1 { out.push(cur.clone()); return; }
        for x in 1..=n { if !used[x] { used[x] = true; cur.push(x); rec(cur, used, n, out); cur.pop(); used[x] = false; } }
    }
    let mut out = vec![];
    rec(&mut vec![0], &mut vec![false; n + 1], n, &mut out);
    out
}

fn event(s: &PartialDSym, big: bool, class: usize, perm: Option<&Vec<usize>>, grp: &str) -> Value {
    let mut e = json!({"ev": "canonical", "grp": grp, "in": dsym_json(s), "big": big,
                       "lin": {"class": class, "perm": perm.map(|p| p[1..].to_vec()).unwrap_or_default()}});
    pending(&e);
    if !big { with_decoy(s, |d| { let _ = canonical(d); }); }
    match catch(|| {
        let c = canonical(s);
        let map = minimal_traversal_code(s).get_map();
        let fix = canonical(&c);
        (c, map, fix)
    }) {
        Ok((c, map, fix)) => { e["out"] = dsym_json(&c); e["map"] = json!(map[1..].to_vec()); e["fix"] = dsym_json(&fix); }
        Err(m) => { e["panic"] = json!(m); }
    }
    e
}

pub fn drive(args: &[String]) {
    let out = arg(args, "--out").unwrap();
    let files = arg(args, "--universe").unwrap_or_default();
    let maxgen = arg_usize(args, "--maxgen", 5);
    let nbig = arg_usize(args, "--big", 6);
    let thorough = std::env::var("DSV_THOROUGH").is_ok();
    let mut rng = rng(3);
    let mut groups: std::collections::BTreeMap<(usize, usize), Vec<Value>> = Default::default();
    let mut class = 0usize;
    let mut add = |s: &PartialDSym, perms: Vec<Vec<usize>>, groups: &mut std::collections::BTreeMap<(usize, usize), Vec<Value>>| {
        class += 1;
        let key = (s.dim(), s.size());
        let grp = format!("d{}n{}", s.dim(), s.size());
        let g = groups.entry(key).or_default();
        g.push(event(s, false, class, None, &grp));
        for p in perms { g.push(event(&renumber(s, &p), false, class, Some(&p), &grp)); }
    };
    // (a) TLC-enumerated connected symbols with all (n <= 3, or thorough) / some renumberings
    for s in syms_from_files(&files) {
        if !s.is_connected() { continue; }
        let n = s.size();
        let perms: Vec<Vec<usize>> = if n <= 3 { all_perms(n).into_iter().skip(1).collect() }
            else if thorough && n == 4 { let mut a: Vec<Vec<usize>> = all_perms(n).into_iter().skip(1).collect(); a.shuffle(&mut rng); a.truncate(8); a } else { (0..4).map(|_| rand_perm(n, &mut rng)).collect() };
        add(&s, perms, &mut groups);
    }
    // (b) generator outputs with random renumberings, and their duals
    for s in generated_2d_reach(maxgen, 7, if thorough { 300 } else { 200 }, &mut rng) {
        if s.size() < 4 { continue; }
        let n = s.size();
        add(&s, (0..2).map(|_| rand_perm(n, &mut rng)).collect(), &mut groups);
        if rng.gen_bool(0.3) { let d = dual(&s); add(&d, vec![rand_perm(n, &mut rng)], &mut groups); }
    }
    for s in sets_with_branching(3, if thorough { 4 } else { 3 }, &[1, 2, 3], 4, &mut rng) {
        let n = s.size();
        add(&s, (0..2).map(|_| rand_perm(n, &mut rng)).collect(), &mut groups);
    }
    let mut sink = Sink::create(&out);
    for (_, evs) in groups { for e in evs { sink.emit(e); } }
    // (b2) reach: families (a symbol with its renumberings, judged without workspace) over samples of larger symbols:
    // 2-D generator outputs with 7-8 chambers, 3-D D-sets with 4 chambers and random branching
    {
        let nfam = arg_usize(args, "--families", 600);
        let mut pool: Vec<PartialDSym> = generated_2d_reach(0, 8, 1000, &mut rng).into_iter().filter(|s| s.size() >= 7).collect();
        let n2 = pool.len();
        pool.extend(sets_with_branching(3, 4, &[1, 2, 3, 4, 6], arg_usize(args, "--branchings", 12), &mut rng).into_iter().filter(|s| s.size() == 4));
        eprintln!("C03 families: pool of {} 2-D and {} 3-D symbols", n2, pool.len() - n2);
        pool.shuffle(&mut rng);
        pool.truncate(nfam);
        // big polygons: one face with 70-150 edges (140-300 chambers), most edges on the boundary, a few glued in pairs
        // (straight or twisted) far apart: seeds whose codes agree on a long prefix and then differ by a large number
        for _ in 0..arg_usize(args, "--polygons", 12) {
            let ne = rng.gen_range(70..=150usize);
            let n = 2 * ne;
            let mut s2: Vec<usize> = (0..=n).collect();
            let mut free: Vec<usize> = (0..ne).collect();
            free.shuffle(&mut rng);
            for _ in 0..rng.gen_range(1..=3) {
                let (a, b) = (free.pop().unwrap(), free.pop().unwrap());
                let twist = rng.gen_bool(0.5);
                let (a1, a2, b1, b2) = (2 * a + 1, 2 * a + 2, 2 * b + 1, 2 * b + 2);
                if twist { s2[a1] = b1; s2[b1] = a1; s2[a2] = b2; s2[b2] = a2; } else { s2[a1] = b2; s2[b2] = a1; s2[a2] = b1; s2[b1] = a2; }
            }
            let s0: Vec<usize> = (1..=n).map(|d| if d % 2 == 1 { d + 1 } else { d - 1 }).collect();
            let s1: Vec<usize> = (1..=n).map(|d| if d % 2 == 0 { d % n + 1 } else { (d + n - 2) % n + 1 }).collect();
            let j = json!({"dim": 2, "n": n, "op": [s0, s1, s2[1..].to_vec()], "v": [vec![1; n], vec![1; n]]});
            // branching 1 everywhere is a legal symbol only if degrees are; give every vertex orbit a random branching
            let base = dsym_from_json(&j);
            let mut t = base.clone();
            // two of three polygons keep branching 1 everywhere (seeds are then told apart only by where the glued edges close)
            if rng.gen_range(0..3) == 0 { for d in t.orbit_reps_2d(1, 2) { let v = *[1usize, 1, 2, 3].choose(&mut rng).unwrap(); t.set_v(1, d, v); } }
            pool.push(t);
        }
        for s in pool.into_iter() {
            let n = s.size();
            let member = |t: &PartialDSym, perm: Option<&Vec<usize>>| -> Value {
                let mut m = json!({"in": dsym_json(t), "perm": perm.map(|p| p[1..].to_vec()).unwrap_or_default()});
                match catch(|| { let c = canonical(t); let map = minimal_traversal_code(t).get_map(); let fix = canonical(&c); (c, map, fix) }) {
                    Ok((c, map, fix)) => { m["out"] = dsym_json(&c); m["map"] = json!(map[1..].to_vec()); m["fix"] = dsym_json(&fix); }
                    Err(msg) => { m["panic"] = json!(msg); }
                }
                m
            };
            let mut members = vec![member(&s, None)];
            for k in 0..4 {
                // two transpositions and two random renumberings
                let p = if n >= 100 && k == 0 { let mut p: Vec<usize> = (0..=n).collect(); p[1..].reverse(); p }                       // reversed numbering
                    else if n >= 100 && k == 1 { let sh = rng.gen_range(1..n); let mut p: Vec<usize> = (0..=n).collect(); for d in 1..=n { p[d] = (d - 1 + sh) % n + 1; } p }   // shifted
                    else if k < 2 { let (a, b) = (rng.gen_range(1..=n), rng.gen_range(1..=n)); let mut p: Vec<usize> = (0..=n).collect(); p.swap(a, b); p } else { rand_perm(n, &mut rng) };
                members.push(member(&renumber(&s, &p), Some(&p)));
            }
            sink.emit(json!({"ev": "canonical_family", "grp": format!("fam{}", sink.n / 200), "members": members}));
        }
    }
    // (c) large symbols: toroidal and finite universal covers, keyed by lineage
    let mut bigs: Vec<PartialDSym> = vec![];
    let mut cands: Vec<PartialDSym> = generated_2d(maxgen.max(4)).into_iter().filter(|s| s.size() >= 3).collect();
    cands.shuffle(&mut rng);
    for s in cands {
        if bigs.len() >= nbig { break; }
        let c = if is_euclidean(&s) { catch(|| toroidal_cover(&s)).ok() }
                else if is_spherical(&s) { catch(|| finite_universal_cover(&s)).ok() } else { None };
        if let Some(c) = c { if c.size() >= 48 && c.size() <= 480 { bigs.push(c); } }
    }
    for (k, c) in bigs.iter().enumerate() {
        let grp = format!("big{k}");
        sink.emit(event(c, true, 100000 + k, None, &grp));
        for _ in 0..3 { let p = rand_perm(c.size(), &mut rng); sink.emit(event(&renumber(c, &p), true, 100000 + k, Some(&p), &grp)); }
    }
    sink.flush();
    println!("{}", json!({"events": sink.n, "big": bigs.iter().map(|c| c.size()).collect::<Vec<_>>()}));
}

//! dsv — conformance harness binding the TLA+ specification in /verif/spec to rust_dsymbols.
//! `dsv <property> <mode> [options]`; modes are `drive` (run the real code, write an ndjson
//! trace for TLC) and `replay` (step TLC-generated cases through the real code and compare
//! the projected state with what the specification computed).
mod common;
mod corpus;
mod c01;
mod c02;
mod c03;
mod c04;
mod c05;
mod c06;
mod c08;
mod c10;
mod groups;
mod c11;
mod c12;
mod c14;
mod c15;
mod c18;
mod c19;
mod c20;

fn main() {
    let args: Vec<String> = std::env::args().skip(1).collect();
    if args.len() < 2 {
        eprintln!("usage: dsv <property> <drive|replay> [options]");
        std::process::exit(2);
    }
    common::quiet_panics();
    let rest = &args[2..];
    match (args[0].as_str(), args[1].as_str()) {
        ("C01", "replay") => c01::replay(rest),
        ("C01", "drive") => c01::drive(rest),
        ("C01", "one") => c01::one(rest),
        ("C02", "drive") => c02::drive(rest),
        ("C03", "drive") => c03::drive(rest),
        ("C04", "drive") => c04::drive(rest),
        ("C05", "drive") => c05::drive_c05(rest),
        ("C09", "drive") => c05::drive_c09(rest),
        ("C06", "drive") => c06::drive_c06(rest),
        ("C06", "backtrack") => c06::replay_backtrack(rest),
        ("C07", "drive") => c06::drive_c07(rest),
        ("C08", "drive") => c08::drive(rest),
        ("C10", "replay") => c10::replay(rest),
        ("C10", "drive") => c10::drive(rest),
        ("C11", "drive") => c11::drive(rest),
        ("C11", "hooked") => c11::drive_hooked(rest),
        ("C12", "drive") => c12::drive_c12(rest),
        ("C12", "hooked") => c12::drive_hooked(rest),
        ("C13", "drive") => c12::drive_c13(rest),
        ("C13", "core-one") => c12::core_one(rest),
        ("C14", "replay") => c14::replay(rest),
        ("C14", "drive") => c14::drive(rest),
        ("C15", "drive") => c15::drive_c15(rest),
        ("C16", "drive") => c15::drive_c16(rest),
        ("C17", "drive") => c15::drive_c17(rest),
        ("C17", "explore-prisms") => c15::explore_prisms(rest),
        ("C18", "replay") => c18::replay(rest),
        ("C18", "drive") => c18::drive(rest),
        ("C19", "replay") => c19::replay(rest),
        ("C19", "drive") => c19::drive(rest),
        ("C19", "hooked") => c19::drive_hooked(rest),
        ("C20", "replay") => c20::replay(rest),
        ("C20", "drive") => c20::drive(rest),
        _ => {
            eprintln!("unknown command {:?}", &args[..2]);
            std::process::exit(2);
        }
    }
}

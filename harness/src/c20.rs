//! C20 — union-find partitions.
use crate::common::*;
use rand::prelude::*;
use rust_dsymbols::util::partitions::*;
use serde_json::{json, Value};

/// The three concrete partition types behind one interface.
trait P: Sized {
    fn mk() -> Self;
    fn unite_(&mut self, a: usize, b: usize);
    fn find_(&self, a: usize) -> usize;
    fn classes_(&self, q: &[usize]) -> Vec<Vec<usize>>;
    fn clone_(&self) -> Self;
}
impl P for IntPartition {
    fn mk() -> Self { IntPartition::new() }
    fn unite_(&mut self, a: usize, b: usize) { self.unite(a, b) }
    fn find_(&self, a: usize) -> usize { self.find(a) }
    fn classes_(&self, q: &[usize]) -> Vec<Vec<usize>> { self.classes(q) }
    fn clone_(&self) -> Self { self.clone() }
}
impl P for Partition<usize> {
    fn mk() -> Self { Partition::new() }
    fn unite_(&mut self, a: usize, b: usize) { self.unite(&a, &b) }
    fn find_(&self, a: usize) -> usize { self.find(&a) }
    fn classes_(&self, q: &[usize]) -> Vec<Vec<usize>> { self.classes(q) }
    fn clone_(&self) -> Self { self.clone() }
}
fn nm(a: usize) -> String { format!("e{a}") }
fn un(s: &str) -> usize { s[1..].parse().unwrap() }
impl P for Partition<String> {
    fn mk() -> Self { Partition::new() }
    fn unite_(&mut self, a: usize, b: usize) { self.unite(&nm(a), &nm(b)) }
    fn find_(&self, a: usize) -> usize { un(&self.find(&nm(a))) }
    fn classes_(&self, q: &[usize]) -> Vec<Vec<usize>> {
        let q: Vec<String> = q.iter().map(|&a| nm(a)).collect();
        self.classes(&q).iter().map(|c| c.iter().map(|s| un(s)).collect()).collect()
    }
    fn clone_(&self) -> Self { self.clone() }
}

fn apply<T: P>(inst: &mut Vec<T>, o: &Value) -> Option<Vec<Vec<usize>>> {
    let p = o["p"].as_u64().unwrap() as usize - 1;
    let a = o["a"].as_u64().unwrap() as usize;
    let b = o["b"].as_u64().unwrap() as usize;
    match o["op"].as_str().unwrap() {
        "unite" => { inst[p].unite_(a, b); None }
        "find" => { let _ = inst[p].find_(a); None }
        "classes" => {
            let q: Vec<usize> = o["q"].as_array().unwrap().iter().map(|x| x.as_u64().unwrap() as usize).collect();
            Some(inst[p].classes_(&q))
        }
        "clone" => { let c = inst[p].clone_(); inst.push(c); None }
        x => panic!("unknown op {x}"),
    }
}

/// Replays one case; returns a description of the first disagreement with the specification.
/// `mode` chooses how the implementation is observed.  Observing representatives is itself a sequence of `find` calls
/// that changes the concrete state, so the same history is replayed three ways: 0 = representatives are read before and
/// after the last step in ascending order (needed for the "representative stays the same" clause); 1 = "cold": nothing
/// is read before the last step, so the object is in exactly the state the history leaves it in, and afterwards the
/// elements are read most-recently-used first; 2 = cold, descending order.
fn run_case<T: P>(c: &Value, ne: usize, cmp: &mut usize, mode: u8) -> Option<String> {
    let ops = c["ops"].as_array().unwrap();
    let r = catch(|| {
        let mut inst: Vec<T> = vec![T::mk()];
        for o in &ops[..ops.len() - 1] {
            apply(&mut inst, o);
        }
        // representatives before the last step (observing them compresses paths: that is the point)
        let before: Vec<Vec<usize>> = if mode == 0 { inst.iter().map(|p| (0..ne).map(|x| p.find_(x)).collect()).collect() } else { vec![] };
        let res = apply(&mut inst, &ops[ops.len() - 1]);
        let order: Vec<usize> = match mode {
            0 => (0..ne).collect(),
            2 => (0..ne).rev().collect(),
            _ => {
                let mut o: Vec<usize> = vec![];
                for op in ops.iter().rev() {
                    let mut m: Vec<usize> = vec![];
                    if let Some(q) = op["q"].as_array() { m.extend(q.iter().rev().map(|x| x.as_u64().unwrap() as usize)); }
                    if op["op"] == "find" || op["op"] == "unite" { m.push(op["a"].as_u64().unwrap() as usize); }
                    if op["op"] == "unite" { m.push(op["b"].as_u64().unwrap() as usize); }
                    for x in m { if x < ne && !o.contains(&x) { o.push(x); } }
                }
                for x in 0..ne { if !o.contains(&x) { o.push(x); } }
                o
            }
        };
        let after: Vec<Vec<usize>> = inst.iter().map(|p| { let mut r = vec![0; ne]; for &x in &order { r[x] = p.find_(x); } r }).collect();
        (before, res, after)
    });
    let (before, res, after) = match r {
        Ok(x) => x,
        Err(m) => return Some(format!("panic: {m}")),
    };
    if after.len() as u64 != c["nlive"].as_u64().unwrap() {
        return Some("number of live instances".into());
    }
    for (q, reps) in after.iter().enumerate() {
        for x in 0..ne {
            if reps[x] >= ne || !c["same"][q][x][reps[x]].as_bool().unwrap() {
                return Some(format!("instance {}: representative {} of {} is not in its class", q + 1, reps[x], x));
            }
            for y in 0..ne {
                *cmp += 1;
                let same = reps[x] == reps[y];
                if same != c["same"][q][x][y].as_bool().unwrap() {
                    return Some(format!("instance {}: same-representative({x},{y}) = {same}", q + 1));
                }
            }
            if q < before.len() && c["kept"][q][x].as_bool() == Some(true) && before[q][x] != reps[x] {
                return Some(format!("instance {}: representative of {x} changed from {} to {} without a union involving its class", q + 1, before[q][x], reps[x]));
            }
        }
    }
    if let Some(got) = res {
        *cmp += 1;
        if json!(got) != c["res"] {
            return Some(format!("classes returned {:?}", got));
        }
    }
    None
}

pub fn replay(args: &[String]) {
    let path = &args[0];
    let ne = arg_usize(args, "--elems", 3);
    let mut cmp = 0usize;
    let mut bad: Vec<Value> = vec![];
    let mut nontrivial = 0usize;
    let mut ncases = 0usize;
    let mut sample: Option<Value> = None;
    for_each_line(path, |c| {
        ncases += 1;
        let ops = c["ops"].as_array().unwrap();
        let has_union = ops.iter().any(|o| o["op"] == "unite" && o["a"] != o["b"]);
        let has_clone = ops.iter().any(|o| o["op"] == "clone");
        if has_union && has_clone { nontrivial += 1; }
        for mode in 0..3u8 {
            for (kind, r) in [
                ("IntPartition", run_case::<IntPartition>(&c, ne, &mut cmp, mode)),
                ("Partition<usize>", run_case::<Partition<usize>>(&c, ne, &mut cmp, mode)),
                ("Partition<String>", run_case::<Partition<String>>(&c, ne, &mut cmp, mode)),
            ] {
                if let Some(msg) = r {
                    if bad.len() < 5 { bad.push(json!({"type": kind, "observation": mode, "why": msg, "case": c})); }
                }
            }
        }
        if ncases == 1000 || sample.is_none() { sample = Some(c); }
    });
    println!("{}", json!({"cases": ncases, "executions": ncases * 9, "comparisons": cmp,
                          "nontrivial": nontrivial, "mismatches": bad, "sample": sample}));
}

/// impl -> spec: long random histories, every call and its result recorded for Trace_C20.
fn drive_one<T: P>(sink: &mut Sink, kind: &str, ne: usize, len: usize, rng: &mut StdRng) {
    sink.emit(json!({"ev": "uf", "op": "reset", "n": ne, "kind": kind}));
    let mut inst: Vec<T> = vec![T::mk()];
    // locality: half of the time the operands are among the three most recently used elements, so that patterns such as
    // find(e); unite(..); find(e) with nothing in between are frequent (an implementation may cache its last answer)
    let mut recent: Vec<usize> = vec![];
    for _ in 0..len {
        let p = rng.gen_range(0..inst.len());
        let pick = |rng: &mut StdRng, recent: &Vec<usize>| if !recent.is_empty() && rng.gen_bool(0.5) { recent[rng.gen_range(0..recent.len())] } else { rng.gen_range(0..ne) };
        let a = pick(rng, &recent);
        let b = pick(rng, &recent);
        recent.retain(|&x| x != a); recent.insert(0, a); recent.truncate(3);
        let roll = rng.gen_range(0..100);
        let ev = if roll < 35 {
            match catch(|| inst[p].unite_(a, b)) {
                Ok(()) => json!({"ev": "uf", "op": "unite", "p": p + 1, "a": a, "b": b}),
                Err(m) => json!({"ev": "uf", "op": "unite", "p": p + 1, "a": a, "b": b, "panic": m}),
            }
        } else if roll < 85 {
            match catch(|| inst[p].find_(a)) {
                Ok(r) => json!({"ev": "uf", "op": "find", "p": p + 1, "a": a, "out": r}),
                Err(m) => json!({"ev": "uf", "op": "find", "p": p + 1, "a": a, "panic": m}),
            }
        } else if roll < 95 || inst.len() >= 4 {
            let k = rng.gen_range(1..=ne.min(12));
            let q: Vec<usize> = (0..k).map(|_| rng.gen_range(0..ne)).collect();
            match catch(|| inst[p].classes_(&q)) {
                Ok(r) => json!({"ev": "uf", "op": "classes", "p": p + 1, "q": q, "out": r}),
                Err(m) => json!({"ev": "uf", "op": "classes", "p": p + 1, "q": q, "panic": m}),
            }
        } else {
            match catch(|| inst[p].clone_()) {
                Ok(c) => { inst.push(c); json!({"ev": "uf", "op": "clone", "p": p + 1}) }
                Err(m) => json!({"ev": "uf", "op": "clone", "p": p + 1, "panic": m}),
            }
        };
        sink.emit(ev);
    }
}

pub fn drive(args: &[String]) {
    let out = arg(args, "--out").unwrap();
    let hist = arg_usize(args, "--histories", 6);
    let len = arg_usize(args, "--len", 400);
    let ne = arg_usize(args, "--elems", 24);
    let mut sink = Sink::create(&out);
    let mut rng = rng(20);
    for h in 0..hist {
        // every second round of the three types works on a small universe (6 elements): dense interaction
        let ne = if (h / 3) % 2 == 1 { ne.min(6) } else { ne };
        match h % 3 {
            0 => drive_one::<IntPartition>(&mut sink, "IntPartition", ne, len, &mut rng),
            1 => drive_one::<Partition<usize>>(&mut sink, "Partition<usize>", ne, len, &mut rng),
            _ => drive_one::<Partition<String>>(&mut sink, "Partition<String>", ne, len, &mut rng),
        }
    }
    sink.flush();
    println!("{}", json!({"events": sink.n}));
}

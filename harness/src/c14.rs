//! C14 — abelian invariants.
use crate::common::*;
use rand::prelude::*;
use rust_dsymbols::fpgroups::free_words::FreeWord;
use rust_dsymbols::fpgroups::invariants::abelian_invariants;
use serde_json::{json, Value};

pub fn letters(x: &FreeWord) -> Vec<isize> { x.iter().cloned().collect() }

/// a word with the given exponent sums, letters arranged in one of several orders
fn word_for(row: &[i64], style: usize, rng: &mut StdRng) -> Vec<isize> {
    let mut blocks: Vec<Vec<isize>> = row.iter().enumerate().map(|(g, &e)| {
        let l = (g as isize + 1) * if e < 0 { -1 } else { 1 };
        vec![l; e.unsigned_abs() as usize]
    }).collect();
    match style {
        0 => blocks.concat(),
        1 => { blocks.reverse(); blocks.concat() }
        2 => { // round robin over the generators
            let mut out = vec![]; let mut k = 0;
            loop { let mut any = false; for b in blocks.iter() { if k < b.len() { out.push(b[k]); any = true; } } if !any { break; } k += 1; }
            out }
        _ => { // random shuffle that keeps all letters of a generator of one sign, plus a trivial commutator pair
            let mut all = blocks.concat(); all.shuffle(rng);
            let g = rng.gen_range(1..=row.len().max(1)) as isize; all.push(g); all.push(-g); all }
    }
}

fn call(ngens: usize, rels: &Vec<FreeWord>) -> Result<Vec<usize>, String> {
    catch(|| abelian_invariants(ngens, rels.iter()))
}

pub fn replay(args: &[String]) {
    let cases = read_lines(&args[0]);
    let mut rng = rng(14);
    let mut n = 0; let mut bad: Vec<Value> = vec![]; let mut nontrivial = 0;
    for c in &cases {
        let ngens = c["ngens"].as_u64().unwrap() as usize;
        let rows: Vec<Vec<i64>> = c["rows"].as_array().unwrap().iter().map(|r| r.as_array().unwrap().iter().map(|x| x.as_i64().unwrap()).collect()).collect();
        let exp: Vec<usize> = c["expected"].as_array().unwrap().iter().map(|x| x.as_u64().unwrap() as usize).collect();
        if exp.iter().any(|&x| x != 0 && x != 1) || (exp.contains(&0) && rows.iter().any(|r| r.iter().any(|&x| x != 0))) { nontrivial += 1; }
        for style in 0..4 {
            let rels: Vec<FreeWord> = rows.iter().map(|r| FreeWord::new(word_for(r, style, &mut rng))).collect();
            n += 1;
            match call(ngens, &rels) {
                Ok(got) => if got != exp && bad.len() < 5 { bad.push(json!({"got": got, "style": style, "relators": rels.iter().map(letters).collect::<Vec<_>>(), "case": c})); },
                Err(m) => if bad.len() < 5 { bad.push(json!({"panic": m, "style": style, "case": c})); },
            }
        }
    }
    println!("{}", json!({"cases": cases.len(), "comparisons": n, "nontrivial": nontrivial, "mismatches": bad, "sample": cases.get(cases.len() / 2)}));
}

fn variant(how: &str, ngens: usize, rels: Vec<FreeWord>) -> Value {
    let mut v = json!({"how": how, "ngens": ngens, "relators": rels.iter().map(letters).collect::<Vec<_>>()});
    match call(ngens, &rels) { Ok(o) => v["out"] = json!(o), Err(m) => v["panic"] = json!(m) }
    v
}

pub fn emit_presentation(sink: &mut Sink, ngens: usize, rels: &Vec<FreeWord>, src: &str, rng: &mut StdRng) {
    let mut e = json!({"ev": "abinv", "ngens": ngens, "relators": rels.iter().map(letters).collect::<Vec<_>>(), "src": src});
    match call(ngens, rels) { Ok(o) => e["out"] = json!(o), Err(m) => e["panic"] = json!(m) }
    let mut vs = vec![];
    if ngens > 0 {
        // relators permuted
        let mut r = rels.clone(); r.shuffle(rng); vs.push(variant("permuted", ngens, r));
        // inverted / rotated / conjugated
        vs.push(variant("inverted", ngens, rels.iter().map(|w| if rng.gen_bool(0.5) { w.inverse() } else { w.clone() }).collect()));
        vs.push(variant("rotated", ngens, rels.iter().map(|w| w.rotated(rng.gen_range(0..=w.len() as isize))).collect()));
        vs.push(variant("conjugated", ngens, rels.iter().map(|w| { let g = rng.gen_range(1..=ngens) as isize; FreeWord::new([g]) * w * FreeWord::new([-g]) }).collect()));
        // generators renamed (permutation) and some inverted
        let mut p: Vec<isize> = (1..=ngens as isize).collect(); p.shuffle(rng);
        let sg: Vec<isize> = (0..ngens).map(|_| if rng.gen_bool(0.5) { 1 } else { -1 }).collect();
        vs.push(variant("renamed", ngens, rels.iter().map(|w| FreeWord::new(w.iter().map(|&x| { let k = (x.abs() - 1) as usize; p[k] * sg[k] * x.signum() }))).collect()));
        // products of existing relators appended
        if !rels.is_empty() {
            let mut r = rels.clone();
            for _ in 0..2 { let a = rels.choose(rng).unwrap(); let b = rels.choose(rng).unwrap(); r.push(a * b.inverse() * a); }
            vs.push(variant("products_appended", ngens, r));
        }
    }
    e["variants"] = json!(vs);
    sink.emit(e);
}

pub fn drive(args: &[String]) {
    let out = arg(args, "--out").unwrap();
    let n = arg_usize(args, "--presentations", 300);
    let mut sink = Sink::create(&out);
    let mut rng = rng(141);
    for k in 0..n {
        let ngens = rng.gen_range(if k % 17 == 0 { 0 } else { 1 }..=5usize);
        let nrels = rng.gen_range(0..=6usize);
        let maxe = *[1i64, 2, 2, 3, 4].choose(&mut rng).unwrap();
        let mut rels = vec![];
        for _ in 0..nrels {
            let row: Vec<i64> = (0..ngens).map(|_| if rng.gen_bool(0.4) { 0 } else { rng.gen_range(-maxe..=maxe) }).collect();
            let style = rng.gen_range(0..4);
            rels.push(FreeWord::new(word_for(&row, style, &mut rng)));
        }
        // sometimes force rank deficiency: repeat / combine rows
        if nrels >= 2 && rng.gen_bool(0.3) { let a = rels[0].clone(); let b = rels[1].clone(); rels.push(&a * &b); rels.push(a.raised_to(2)); }
        emit_presentation(&mut sink, ngens, &rels, "random", &mut rng);
    }
    // presentations of orbifold groups of small 2-D symbols
    {
        use rust_dsymbols::generators::dset_generators::DSets;
        use rust_dsymbols::generators::dsym_generators::{DSyms, Geometries};
        use rust_dsymbols::fundamental_group::fundamental_group;
        let maxn = arg_usize(args, "--maxn", 3);
        for dset in DSets::new(2, maxn) {
            for ds in DSyms::new(&dset, Geometries::All) {
                if let Ok(fg) = catch(|| fundamental_group(&ds)) {
                    if fg.nr_generators() <= 6 && fg.relators.len() <= 10 && fg.relators.iter().all(|w| w.len() <= 24) {
                        emit_presentation(&mut sink, fg.nr_generators(), &fg.relators, "orbifold group", &mut rng);
                    }
                }
            }
        }
    }
    sink.flush();
    println!("{}", json!({"events": sink.n}));
}

//! C02 — basic queries in every representation.
use crate::common::*;
use crate::corpus::*;
use rand::prelude::*;
use rust_dsymbols::derived::*;
use rust_dsymbols::dsets::*;
use rust_dsymbols::dsyms::*;
use serde_json::{json, Value};

fn opt(x: Option<usize>) -> i64 { x.map(|v| v as i64).unwrap_or(-1) }

fn set_tables<T: DSet>(ds: &T, n: usize, dim: usize) -> Value {
    let op: Vec<Vec<i64>> = (0..=dim + 1).map(|i| (0..=n + 1).map(|d| opt(ds.op(i, d))).collect()).collect();
    let r: Vec<Vec<Vec<i64>>> = (0..=dim + 1).map(|i| (0..=dim + 1).map(|j| (0..=n + 1).map(|d| opt(ds.r(i, j, d))).collect()).collect()).collect();
    json!({"op": op, "r": r, "conn": ds.is_connected(), "compl": ds.is_complete(), "loopl": ds.is_loopless(),
           "wori": ds.is_weakly_oriented(), "ori": ds.is_oriented()})
}

fn sym_tables<T: DSym>(ds: &T, n: usize, dim: usize) -> Value {
    let mut t = set_tables(ds, n, dim);
    let v: Vec<Vec<Vec<i64>>> = (0..=dim + 1).map(|i| (0..=dim + 1).map(|j| (0..=n + 1).map(|d| opt(ds.v(i, j, d))).collect()).collect()).collect();
    let m: Vec<Vec<Vec<i64>>> = (0..=dim + 1).map(|i| (0..=dim + 1).map(|j| (0..=n + 1).map(|d| opt(ds.m(i, j, d))).collect()).collect()).collect();
    t["v"] = json!(v);
    t["m"] = json!(m);
    t
}

fn wrap(r: Result<Value, String>) -> Value { match r { Ok(v) => v, Err(m) => json!({"panic": m}) } }

/// all index subsets (as sorted vectors) of 0..=dim
fn index_subsets(dim: usize) -> Vec<Vec<usize>> {
    (0u32..(1 << (dim + 1))).map(|mask| (0..=dim).filter(|i| mask >> i & 1 == 1).collect()).collect()
}

fn trav_events<T: DSet>(sink: &mut Sink, ds: &T, sj: &Value, rep: &str, rng: &mut StdRng, all_seeds: bool) {
    let n = ds.size();
    let thorough = std::env::var("DSV_THOROUGH").is_ok();
    let mut seed_lists: Vec<Vec<usize>> = vec![(1..=n).collect()];
    if all_seeds {
        for d in 1..=n { seed_lists.push(vec![d]); }
        for a in 1..=n { for b in 1..=n { seed_lists.push(vec![a, b]); } }
    } else {
        for _ in 0..2 { seed_lists.push(vec![rng.gen_range(1..=n)]); }
        let k = rng.gen_range(1..=3.min(n)); seed_lists.push((0..k).map(|_| rng.gen_range(1..=n)).collect());
    }
    let mut subsets = index_subsets(ds.dim());
    if !all_seeds && !thorough { subsets.shuffle(rng); subsets.truncate(3); }
    for idcs in subsets {
        for seeds in &seed_lists {
            let mut e = json!({"ev": "trav", "sym": sj, "rep": rep, "idcs": idcs, "seeds": seeds});
            let r = catch(|| {
                let out: Vec<Vec<i64>> = ds.traversal(idcs.iter().cloned(), seeds.iter().cloned())
                    .map(|(i, d, di)| vec![i.map(|x| x as i64).unwrap_or(-1), d as i64, di as i64]).collect();
                let reps = ds.orbit_reps(idcs.iter().cloned(), seeds.iter().cloned());
                let orbit = if seeds.len() == 1 { Some(ds.orbit(idcs.iter().cloned(), seeds[0])) } else { None };
                (out, reps, orbit)
            });
            match r {
                Ok((out, reps, orbit)) => { e["out"] = json!(out); e["reps"] = json!(reps); if let Some(o) = orbit { e["orbit"] = json!(o); } }
                Err(m) => { e["panic"] = json!(m); }
            }
            sink.emit(e);
        }
    }
}

/// one `sym` event (all representations) and the traversal events for one symbol given as JSON
fn emit_all(sink: &mut Sink, j: &Value, rng: &mut StdRng, all_seeds: bool, trav_reps: usize) {
    let n = j["n"].as_u64().unwrap() as usize;
    let dim = j["dim"].as_u64().unwrap() as usize;
    let complete = complete_ops(j);
    let has_v = j.get("v").is_some();
    let all_v = has_v && j["v"].as_array().unwrap().iter().all(|r| r.as_array().unwrap().iter().all(|x| x.as_u64() != Some(0)));
    let mut reps = serde_json::Map::new();
    let pset = dset_from_json(j);
    reps.insert("PartialDSet".into(), wrap(catch(|| set_tables(&pset, n, dim))));
    // the spec-side symbol: D-sets are judged as sets; symbols with their v
    let mut sj = json!({"n": n, "dim": dim, "op": j["op"]});
    if complete {
        let sset: SimpleDSet = pset.clone().into();
        reps.insert("SimpleDSet".into(), wrap(catch(|| set_tables(&sset, n, dim))));
        if has_v {
            sj["v"] = j["v"].clone();
            let psym = dsym_from_json(j);
            reps.insert("PartialDSym".into(), wrap(catch(|| sym_tables(&psym, n, dim))));
            if all_v {
                let ssym: SimpleDSym = psym.clone().into();
                reps.insert("SimpleDSym".into(), wrap(catch(|| sym_tables(&ssym, n, dim))));
                if trav_reps >= 4 { trav_events(sink, &ssym, &sj, "SimpleDSym", rng, false); }
            }
            if trav_reps >= 3 { trav_events(sink, &psym, &sj, "PartialDSym", rng, false); }
            // conversions must not change anything either
            let back = as_partial_dsym(&psym);
            reps.insert("PartialDSym".to_string() + "_via_as_partial_dsym", wrap(catch(|| sym_tables(&back, n, dim))));
        } else {
            // a bare complete D-set seen as a symbol with trivial branching
            let triv = as_dsym(&sset);
            let mut sj1 = sj.clone();
            sj1["v"] = json!(vec![vec![1; n]; dim]);
            let mut r1 = serde_json::Map::new();
            r1.insert("PartialDSym".into(), wrap(catch(|| sym_tables(&triv, n, dim))));
            sink.emit(json!({"ev": "sym", "sym": sj1, "reps": r1}));
        }
        if trav_reps >= 2 { trav_events(sink, &sset, &sj, "SimpleDSet", rng, false); }
    }
    trav_events(sink, &pset, &sj, "PartialDSet", rng, all_seeds);
    // representation names with a suffix are aliases of the base name for the spec
    let mut reps2 = serde_json::Map::new();
    for (k, v) in reps { reps2.insert(k.replace("_via_as_partial_dsym", "2"), v); }
    sink.emit(json!({"ev": "sym", "sym": sj, "reps": reps2}));
}

pub fn drive(args: &[String]) {
    let out = arg(args, "--out").unwrap();
    let files = arg(args, "--universe").unwrap_or_default();
    let maxgen = arg_usize(args, "--maxgen", 4);
    let mut sink = Sink::create(&out);
    let mut rng = rng(2);
    // (a) TLC-enumerated universes: every representation, all seeds
    for p in files.split(',').filter(|p| !p.is_empty()) {
        for j in read_lines(p) {
            let thorough = std::env::var("DSV_THOROUGH").is_ok();
            let small = j["n"].as_u64().unwrap() <= if thorough { 3 } else { 2 } && (thorough || j["dim"].as_u64().unwrap() <= 2);
            emit_all(&mut sink, &j, &mut rng, small, 4);
        }
    }
    // (b) generator outputs, renumberings, duals and small covers: larger symbols
    let mut big: Vec<PartialDSym> = vec![];
    for s in generated_2d_reach(maxgen, 7, 60, &mut rng) {
        if s.size() >= 4 && rng.gen_bool(0.5) {
            big.push(renumber(&s, &rand_perm(s.size(), &mut rng)));
            for c in small_covers(&s, 2).into_iter().take(1) { big.push(c); }
        }
    }
    for s in sets_with_branching(3, 3.min(maxgen), &[1, 2, 3], 3, &mut rng) {
        big.push(dual(&s));
        big.push(renumber(&s, &rand_perm(s.size(), &mut rng)));
    }
    for s in &big {
        emit_all(&mut sink, &dsym_json(s), &mut rng, false, 3);
    }
    // (b2) the constructors of derived.rs on complete symbols, beyond the listed properties: dual, subsymbol (every index
    // pair / triple, a few seeds), the generic cover constructor with an explicit sheet map
    for s in syms_from_files(&files).iter().chain(big.iter()) {
        if !s.is_complete() || s.size() > 12 { continue; }
        let (n, dim) = (s.size(), s.dim());
        let mut e = json!({"ev": "derived", "sym": dsym_json(s)});
        pending(&e);
        match catch(|| {
            let d = dual(s);
            let dd = dual(&d);
            let mut subs = vec![];
            for i in 0..=dim { for j in (i + 1)..=dim {
                let seed = rng.gen_range(1..=n);
                subs.push(json!({"idcs": [i, j], "seed": seed, "out": dsym_json(&subsymbol(s, [i, j], seed))}));
                for k in (j + 1)..=dim { let seed = rng.gen_range(1..=n); subs.push(json!({"idcs": [i, j, k], "seed": seed, "out": dsym_json(&subsymbol(s, [i, j, k], seed))})); }
            } }
            // a 2-sheeted cover by an explicit sheet map: the gauge transform of the trivial cover by a random 0/1 labelling f
            // of the chambers (facet (i, d) changes the sheet iff f differs across it), valid for every symbol
            let f: Vec<usize> = (0..=n).map(|_| rng.gen_range(0..2)).collect();
            let sm: Vec<Vec<usize>> = (0..=dim).map(|i| (1..=n).map(|d| f[d] ^ f[s.op(i, d).unwrap()]).collect()).collect();
            let cov = cover(s, 2, |sheet, i, d| (sheet + sm[i][d - 1]) % 2);
            (d, dd, subs, sm, cov)
        }) {
            Ok((d, dd, subs, sm, cov)) => { e["dual"] = dsym_json(&d); e["dualdual"] = dsym_json(&dd); e["subs"] = json!(subs); e["sheetmap"] = json!(sm); e["cover"] = dsym_json(&cov); }
            Err(m) => { e["panic"] = json!(m); }
        }
        sink.emit(e);
    }
    // (c) disconnected symbols: disjoint unions of connected generator outputs, in both orders (every
    // predicate and traversal law is about ALL components, not only the one of chamber 1)
    let thorough = std::env::var("DSV_THOROUGH").is_ok();
    for dim in [2usize, 3] {
        let pool: Vec<PartialDSym> = sets_with_branching(dim, if dim == 2 { 4 } else { 2 }, &[1, 2], 2, &mut rng);
        for a in &pool {
            for b in &pool {
                let small = a.size().min(b.size()) <= 2;
                if !(small || (thorough && dim == 2)) && !rng.gen_bool(0.03) { continue; }
                let (na, nb) = (a.size(), b.size());
                let u = build_sym_using_vs(
                    build_set(na + nb, dim, |i, d| if d <= na { a.op(i, d) } else { b.op(i, d - na).map(|e| e + na) }),
                    |i, d| if d <= na { a.v(i, i + 1, d) } else { b.v(i, i + 1, d - na) });
                emit_all(&mut sink, &dsym_json(&u), &mut rng, false, 2);
            }
        }
    }
    // (d) the predicates alone on larger D-sets: every generated D-set with 6..=preds_max (2-D) / 5..=preds_max-2 (3-D)
    // chambers in its own and in random numberings, and 2-sheeted gauge covers (non-trivial odd/even cycle structure)
    let pmax = arg_usize(args, "--preds-max", 0);
    if pmax > 0 {
        use rust_dsymbols::generators::dset_generators::DSets;
        let pred_json = |ds: &PartialDSet| -> Value {
            let mut reps = serde_json::Map::new();
            let one = |d: &dyn Fn() -> Value| wrap(catch(|| d()));
            reps.insert("PartialDSet".into(), one(&|| json!({"conn": ds.is_connected(), "compl": ds.is_complete(), "loopl": ds.is_loopless(), "wori": ds.is_weakly_oriented(), "ori": ds.is_oriented()})));
            let ss: SimpleDSet = ds.clone().into();
            reps.insert("SimpleDSet".into(), one(&|| json!({"conn": ss.is_connected(), "compl": ss.is_complete(), "loopl": ss.is_loopless(), "wori": ss.is_weakly_oriented(), "ori": ss.is_oriented()})));
            json!({"ev": "preds", "sym": dset_json(ds), "reps": Value::Object(reps)})
        };
        for (dim, lo, hi) in [(2usize, 6usize, pmax), (3, 5, pmax.saturating_sub(2))] {
            for dset in DSets::new(dim, hi) {
                if dset.size() < lo { continue; }
                let n = dset.size();
                let p0 = build_set(n, dim, |i, d| dset.op(i, d));
                sink.emit(pred_json(&p0));
                for _ in 0..arg_usize(args, "--preds-renumberings", 3) { sink.emit(pred_json(&renumber_set(&p0, &rand_perm(n, &mut rng)))); }
            }
        }
    }
    sink.flush();
    println!("{}", json!({"events": sink.n}));
}

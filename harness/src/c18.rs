//! C18 — exact linear algebra in every backend.
use crate::common::*;
use num_bigint::{BigInt, Sign};
use num_rational::BigRational;
use num_traits::{One, Zero};
use rand::prelude::*;
use rust_dsymbols::geometry::matrix::{Matrix, RowEchelonMatrix};
use rust_dsymbols::geometry::modular_solver;
use rust_dsymbols::geometry::prime_residue_classes::PrimeResidueClass;
use rust_dsymbols::geometry::traits::Array2d;
use rust_dsymbols::geometry::vec_matrix::{RowEchelonVecMatrix, VecMatrix};
use serde_json::{json, Value};

type F61 = PrimeResidueClass<61>;
thread_local! { static PADIC: std::cell::RefCell<Vec<Value>> = std::cell::RefCell::new(Vec::new()); }
thread_local! { static DEFERRED: std::cell::RefCell<Vec<(Value, BigInt)>> = std::cell::RefCell::new(Vec::new()); }

/// emits the refused `modsolve` events with the common factor r of their determinants (see `emit_all`)
fn flush_deferred(sink: &mut Sink) {
    fn gcd(a: &BigInt, b: &BigInt) -> BigInt { let (mut x, mut y) = (a.magnitude().clone(), b.magnitude().clone()); while !y.is_zero() { let r = &x % &y; x = y; y = r; } BigInt::from(x) }
    let evs = DEFERRED.with(|d| std::mem::take(&mut *d.borrow_mut()));
    let mut g = BigInt::zero();
    for (_, d) in &evs { g = gcd(&g, d); }
    for (mut e, d) in evs {
        e.as_object_mut().unwrap().remove("deferred");
        e["r"] = big(&g);
        e["q"] = big(&(if g.is_zero() { BigInt::zero() } else { &d / &g }));
        sink.emit(e);
    }
}
const PRIME: i64 = 3_037_000_493;

fn big(x: &BigInt) -> Value {
    let s = match x.sign() { Sign::Minus => -1, Sign::NoSign => 0, Sign::Plus => 1 };
    let d: Vec<u32> = x.magnitude().to_string().chars().map(|c| c.to_digit(10).unwrap()).collect();
    json!({"s": s, "d": d})
}
fn rat(x: &BigRational) -> Value { json!({"n": big(x.numer()), "q": big(x.denom())}) }
fn int_as_rat(x: i64) -> Value { json!({"n": big(&BigInt::from(x)), "q": big(&BigInt::one())}) }

fn vm_i64(m: &Vec<Vec<i64>>) -> VecMatrix<i64> {
    let (n, c) = (m.len(), m[0].len());
    let mut a = VecMatrix::<i64>::new(n, c);
    for i in 0..n { for j in 0..c { a[i][j] = m[i][j]; } }
    a
}
fn rows<T: Clone, M: Array2d<T>>(a: &M) -> Vec<Vec<T>> { (0..a.nr_rows()).map(|i| (0..a.nr_columns()).map(|j| a[(i, j)].clone()).collect()).collect() }
fn jq(a: &VecMatrix<BigRational>) -> Value { json!(rows(a).iter().map(|r| r.iter().map(rat).collect::<Vec<_>>()).collect::<Vec<_>>()) }
fn ji(a: &VecMatrix<i64>) -> Value { json!(rows(a).iter().map(|r| r.iter().map(|&x| int_as_rat(x)).collect::<Vec<_>>()).collect::<Vec<_>>()) }
fn jf(a: &VecMatrix<F61>) -> Value { json!(rows(a).iter().map(|r| r.iter().map(|&x| i64::from(x)).collect::<Vec<_>>()).collect::<Vec<_>>()) }

/// the box in which the machine-integer backend is exercised (DESIGN.md, C18: intermediate values overflow outside it)
fn in_i64_box(m: &Vec<Vec<i64>>, extra: &Vec<Vec<i64>>) -> bool {
    let dim = m.len().max(m[0].len());
    let mx = m.iter().chain(extra.iter()).flatten().map(|x| x.abs()).max().unwrap_or(0);
    (dim <= 3 && mx <= 100) || (dim <= 4 && mx <= 10) || (dim <= 6 && mx <= 2)
}

fn emit_all(sink: &mut Sink, m: &Vec<Vec<i64>>, b: &Vec<Vec<i64>>, src: &str) {
    let (n, c) = (m.len(), m[0].len());
    let a = vm_i64(m);
    let bm = vm_i64(b);
    let base = |ev: &str, backend: &str| json!({"ev": ev, "backend": backend, "a": m, "src": src});
    macro_rules! run { ($e:expr, $body:expr, $fill:expr) => {{ let mut e = $e; pending(&e); match catch($body) { Ok(v) => { $fill(&mut e, v); } Err(msg) => { e["panic"] = json!(msg); } } if e.get("deferred").is_none() { sink.emit(e); } }} }
    // --- BigRational
    let aq: VecMatrix<BigRational> = a.to::<BigInt>().to();
    let bq: VecMatrix<BigRational> = bm.to::<BigInt>().to();
    run!(base("rank", "bigrational"), || aq.rank(), |e: &mut Value, v: usize| e["out"] = json!(v));
    run!(base("nullspace", "bigrational"), || aq.null_space_matrix(), |e: &mut Value, v: VecMatrix<BigRational>| { e["ncols"] = json!(v.nr_columns()); e["out"] = jq(&v); });
    run!({ let mut e = base("solve", "bigrational"); e["b"] = json!(b); e }, || aq.solve(&bq), |e: &mut Value, v: Option<VecMatrix<BigRational>>| { e["some"] = json!(v.is_some()); e["out"] = v.map(|x| jq(&x)).unwrap_or(json!([])); });
    if n == c {
        run!(base("det", "bigrational"), || aq.determinant(), |e: &mut Value, v: BigRational| { if v.is_integer() { e["out"] = big(&v.to_integer()); } else { e["panic"] = json!("determinant of an integer matrix is not an integer"); } });
        run!(base("inverse", "bigrational"), || aq.inverse(), |e: &mut Value, v: Option<VecMatrix<BigRational>>| { e["some"] = json!(v.is_some()); e["out"] = v.map(|x| jq(&x)).unwrap_or(json!([])); });
    }
    // --- Z/61
    let af: VecMatrix<F61> = a.to();
    let bf: VecMatrix<F61> = bm.to();
    run!(base("rank", "f61"), || af.rank(), |e: &mut Value, v: usize| e["out"] = json!(v));
    run!(base("nullspace", "f61"), || af.null_space_matrix(), |e: &mut Value, v: VecMatrix<F61>| { e["ncols"] = json!(v.nr_columns()); e["out"] = jf(&v); });
    run!({ let mut e = base("solve", "f61"); e["b"] = json!(b); e }, || af.solve(&bf), |e: &mut Value, v: Option<VecMatrix<F61>>| { e["some"] = json!(v.is_some()); e["out"] = v.map(|x| jf(&x)).unwrap_or(json!([])); });
    if n == c {
        run!(base("det", "f61"), || af.determinant(), |e: &mut Value, v: F61| e["out"] = json!(i64::from(v)));
        run!(base("inverse", "f61"), || af.inverse(), |e: &mut Value, v: Option<VecMatrix<F61>>| { e["some"] = json!(v.is_some()); e["out"] = v.map(|x| jf(&x)).unwrap_or(json!([])); });
    }
    // --- machine integers, inside the box only
    if in_i64_box(m, b) {
        run!(base("rank", "i64"), || a.rank(), |e: &mut Value, v: usize| e["out"] = json!(v));
        run!(base("nullspace", "i64"), || a.null_space_matrix(), |e: &mut Value, v: VecMatrix<i64>| { e["ncols"] = json!(v.nr_columns()); e["out"] = ji(&v); });
        run!({ let mut e = base("solve", "i64"); e["b"] = json!(b); e }, || a.solve(&bm), |e: &mut Value, v: Option<VecMatrix<i64>>| { e["some"] = json!(v.is_some()); e["out"] = v.map(|x| ji(&x)).unwrap_or(json!([])); });
        if n == c {
            run!(base("det", "i64"), || a.determinant(), |e: &mut Value, v: i64| e["out"] = big(&BigInt::from(v)));
            run!(base("inverse", "i64"), || a.inverse(), |e: &mut Value, v: Option<VecMatrix<i64>>| { e["some"] = json!(v.is_some()); e["out"] = v.map(|x| ji(&x)).unwrap_or(json!([])); });
        }
    }
    // --- p-adic solver (square systems)
    if n == c {
        rust_dsymbols::verif::take();
        rust_dsymbols::verif::set_limit(200);
        rust_dsymbols::verif::record(true);
        run!({ let mut e = base("modsolve", "padic"); e["b"] = json!(b); e }, || { let r = modular_solver::solve(&a, &bm); rust_dsymbols::verif::record(false); r }, |e: &mut Value, v: Option<VecMatrix<BigRational>>| {
            e["some"] = json!(v.is_some());
            match v {
                Some(x) => e["out"] = jq(&x),
                None => {
                    // a refusal is lawful only for a system that is singular modulo the solver's prime.  The prime is a
                    // private constant of the library; what can be observed is that all refused systems must have a
                    // common factor r > 1 in their determinants.  The event is deferred until the end of the run, when
                    // r = gcd of the determinants of all refused systems is known (`flush_deferred`); the spec verifies
                    // det(A) = q * r and r > 1 (or det(A) = 0).
                    e["out"] = json!([]);
                    e["deferred"] = json!(true);
                    DEFERRED.with(|d| d.borrow_mut().push((e.clone(), aq.determinant().to_integer())));
                }
            }
        });
        rust_dsymbols::verif::record(false);
        rust_dsymbols::verif::set_limit(usize::MAX);
        // hooked: the lifting steps of the p-adic solver (decimal strings -> sign/digit records) for Trace_C18e
        let steps: Vec<Value> = rust_dsymbols::verif::take().iter().filter_map(|t| serde_json::from_str::<Value>(t).ok()).filter(|v| v["ev"] == "padic_step").collect();
        if !steps.is_empty() {
            fn bigs(v: &Value) -> Value {
                match v {
                    Value::String(t) => big(&t.parse::<BigInt>().unwrap()),
                    Value::Array(a) => Value::Array(a.iter().map(bigs).collect()),
                    x => x.clone(),
                }
            }
            let st: Vec<Value> = steps.iter().map(|v| json!({"step": v["step"], "of": v["of"], "prime": bigs(&v["prime"]), "b": bigs(&v["b"]), "x": bigs(&v["x"]),
                                                            "s": bigs(&v["s"]), "p": bigs(&v["p"]), "last": v["b_next"].is_null(), "b_next": if v["b_next"].is_null() { json!([]) } else { bigs(&v["b_next"]) }})).collect();
            PADIC.with(|p| p.borrow_mut().push(json!({"ev": "padic_run", "a": m, "b": b, "src": src, "steps": st})));
        }
    }
}

/// hooked: the elimination itself.  `RowEchelonVecMatrix::new` is run with recording on; the snapshot after every
/// column and the final state (multiplier, result, columns, rank, swaps) go to `Trace_C18e`, which judges every
/// state by the invariants of `Echelon.tla` and every step as a step of that machine.
fn echelon_runs(sink: &mut Sink, m: &Vec<Vec<i64>>, src: &str) {
    use rust_dsymbols::geometry::traits::Entry;
    fn run_one<T: Entry + Clone>(sink: &mut Sink, m: &Vec<Vec<i64>>, src: &str, backend: &str, a: &VecMatrix<T>, j: &dyn Fn(&VecMatrix<T>) -> Value) {
        let mut e = json!({"ev": "echelon_run", "backend": backend, "a": m, "src": src});
        pending(&e);
        rust_dsymbols::verif::record(true);
        let r = catch(|| RowEchelonVecMatrix::new(a));
        rust_dsymbols::verif::record(false);
        match r {
            Ok(re) => {
                let (s, u, cols, rank, swaps) = re.verif_state();
                e["s"] = j(s); e["u"] = j(u); e["cols"] = json!(cols); e["rank"] = json!(rank); e["swaps"] = json!(swaps);
                e["steps"] = json!(re.verif_steps().iter().map(|(c, r, w, u, s)| json!({"col": c, "row": r, "swaps": w, "u": j(u), "s": j(s)})).collect::<Vec<_>>());
            }
            Err(msg) => { e["panic"] = json!(msg); }
        }
        sink.emit(e);
    }
    let a = vm_i64(m);
    let aq: VecMatrix<BigRational> = a.to::<BigInt>().to();
    run_one(sink, m, src, "bigrational", &aq, &|x| jq(x));
    let af: VecMatrix<F61> = a.to();
    run_one(sink, m, src, "f61", &af, &|x| jf(x));
    if in_i64_box(m, &vec![]) { run_one(sink, m, src, "i64", &a, &|x| ji(x)); }
    // the transpose is what null_space() eliminates
    if m.len() != m[0].len() {
        let t: Vec<Vec<i64>> = (0..m[0].len()).map(|j| (0..m.len()).map(|i| m[i][j]).collect()).collect();
        let at = vm_i64(&t);
        let atq: VecMatrix<BigRational> = at.to::<BigInt>().to();
        run_one(sink, &t, src, "bigrational", &atq, &|x| jq(x));
    }
}

/// the fixed-size Matrix type: its public row echelon constructor must accept every shape without a panic; with the
/// hook (cfg rust_dsymbols_verif) its private rank / null space / solve / determinant / inverse are driven through
/// public wrappers and judged by the same trace actions as the VecMatrix backends
fn echelon_fixed(sink: &mut Sink, m: &Vec<Vec<i64>>, b: &Vec<Vec<i64>>) {
    let _ = b;
    macro_rules! shape { ($n:literal, $c:literal) => {
        if m.len() == $n && m[0].len() == $c {
            let mut e = json!({"ev": "echelon", "backend": "Matrix<BigRational>", "a": m});
            pending(&e);
            let r = catch(|| {
                let mut a = Matrix::<BigRational, $n, $c>::new();
                for i in 0..$n { for j in 0..$c { a[i][j] = BigRational::from(BigInt::from(m[i][j])); } }
                let _ = RowEchelonMatrix::new(&a);
                let mut bb = Matrix::<i64, $n, $c>::new();
                for i in 0..$n { for j in 0..$c { bb[i][j] = m[i][j].clamp(-2, 2); } }
                let _ = RowEchelonMatrix::new(&bb);
            });
            if let Err(msg) = r { e["panic"] = json!(msg); }
            sink.emit(e);
            #[cfg(rust_dsymbols_verif)]
            {
                let mut a = Matrix::<BigRational, $n, $c>::new();
                for i in 0..$n { for j in 0..$c { a[i][j] = BigRational::from(BigInt::from(m[i][j])); } }
                let base = |ev: &str| json!({"ev": ev, "backend": "bigrational", "type": "Matrix<T,N,M>", "a": m});
                let mut e = base("rank"); pending(&e);
                match catch(|| a.verif_rank()) { Ok(v) => e["out"] = json!(v), Err(msg) => e["panic"] = json!(msg) } sink.emit(e);
                let mut e = base("nullspace"); pending(&e);
                match catch(|| a.verif_null_space()) {
                    Ok(cols) => { e["ncols"] = json!(cols.len());
                        e["out"] = json!((0..$c).map(|i| cols.iter().map(|cv| rat(&cv[i][0])).collect::<Vec<_>>()).collect::<Vec<_>>()); }
                    Err(msg) => e["panic"] = json!(msg) }
                sink.emit(e);
                if b.len() == $n && b[0].len() >= 1 {
                    let mut rhs = Matrix::<BigRational, $n, 1>::new();
                    for i in 0..$n { rhs[i][0] = BigRational::from(BigInt::from(b[i][0])); }
                    let b1: Vec<Vec<i64>> = b.iter().map(|r| vec![r[0]]).collect();
                    let mut e = base("solve"); e["b"] = json!(b1); pending(&e);
                    match catch(|| a.verif_solve(&rhs)) {
                        Ok(x) => { e["some"] = json!(x.is_some()); e["out"] = x.map(|x| json!((0..$c).map(|i| vec![rat(&x[i][0])]).collect::<Vec<_>>())).unwrap_or(json!([])); }
                        Err(msg) => e["panic"] = json!(msg) }
                    sink.emit(e);
                }
            }
        }
    }; }
    macro_rules! square { ($n:literal) => {
        #[cfg(rust_dsymbols_verif)]
        if m.len() == $n && m[0].len() == $n {
            let mut a = Matrix::<BigRational, $n, $n>::new();
            for i in 0..$n { for j in 0..$n { a[i][j] = BigRational::from(BigInt::from(m[i][j])); } }
            let base = |ev: &str| json!({"ev": ev, "backend": "bigrational", "type": "Matrix<T,N,N>", "a": m});
            let mut e = base("det"); pending(&e);
            match catch(|| a.verif_determinant()) { Ok(v) => { if v.is_integer() { e["out"] = big(&v.to_integer()); } else { e["panic"] = json!("non-integer determinant"); } } Err(msg) => e["panic"] = json!(msg) }
            sink.emit(e);
            let mut e = base("inverse"); pending(&e);
            match catch(|| a.verif_inverse()) {
                Ok(x) => { e["some"] = json!(x.is_some()); e["out"] = x.map(|x| json!((0..$n).map(|i| (0..$n).map(|j| rat(&x[i][j])).collect::<Vec<_>>()).collect::<Vec<_>>())).unwrap_or(json!([])); }
                Err(msg) => e["panic"] = json!(msg) }
            sink.emit(e);
        }
    }; }
    shape!(1, 1); shape!(1, 2); shape!(2, 1); shape!(1, 3); shape!(3, 1); shape!(2, 2); shape!(2, 3); shape!(3, 2); shape!(3, 3);
    shape!(2, 4); shape!(4, 2); shape!(3, 4); shape!(4, 3); shape!(4, 4); shape!(1, 4); shape!(4, 1);
    square!(1); square!(2); square!(3); square!(4);
}

/// spec -> impl -> spec: matrices (and right-hand sides) enumerated by TLC
pub fn replay(args: &[String]) {
    let cases = read_lines(&args[0]);
    let out = arg(args, "--out").unwrap();
    let mut sink = Sink::create(&out);
    let mut esink = arg(args, "--echelon").map(|p| Sink::create(&p));
    for c in &cases {
        let m: Vec<Vec<i64>> = c["a"].as_array().unwrap().iter().map(|r| r.as_array().unwrap().iter().map(|x| x.as_i64().unwrap()).collect()).collect();
        let b: Vec<Vec<i64>> = c["b"].as_array().unwrap().iter().map(|r| r.as_array().unwrap().iter().map(|x| x.as_i64().unwrap()).collect()).collect();
        emit_all(&mut sink, &m, &b, "tlc");
        echelon_fixed(&mut sink, &m, &b);
        if let Some(es) = esink.as_mut() { echelon_runs(es, &m, "tlc"); }
    }
    if let Some(es) = esink.as_mut() { for e in PADIC.with(|p| std::mem::take(&mut *p.borrow_mut())) { es.emit(e); } es.flush(); }
    flush_deferred(&mut sink);
    sink.flush();
    println!("{}", json!({"cases": cases.len(), "events": sink.n}));
}

pub fn drive(args: &[String]) {
    let out = arg(args, "--out").unwrap();
    let n = arg_usize(args, "--matrices", 150);
    let mut sink = Sink::create(&out);
    let mut esink = arg(args, "--echelon").map(|p| Sink::create(&p));
    let mut rng = rng(18);
    // the prime field: canonical residues incl. negative multiples of the modulus, and the field operations
    let mut ints: Vec<i64> = vec![0, 1, -1, 60, 61, -61, 62, -60, 122, -122, 61 * 61, -61 * 61, i32::MAX as i64, i32::MIN as i64 + 1, 1_000_000_007, -1_000_000_007];
    for _ in 0..40 { ints.push(rng.gen_range(-2_000_000_000..2_000_000_000)); }
    for k in 0..ints.len() {
        let (x, y) = (ints[k], ints[(k * 7 + 3) % ints.len()]);
        let mut e = json!({"ev": "field", "a": x, "b": y});
        match catch(|| {
            let (a, b) = (F61::from(x), F61::from(y));
            let a32 = if x.abs() < i32::MAX as i64 { i64::from(F61::from(x as i32)) } else { i64::from(a) };
            (i64::from(a), i64::from(b), i64::from(a + b), i64::from(a - b), i64::from(a * b), i64::from(-a), a.is_zero(), if b.is_zero() { 0 } else { i64::from(a / b) }, a32)
        }) {
            Ok((ra, rb, s, d, p, ng, z, q, a32)) => { e["ra"] = json!(ra); e["rb"] = json!(rb); e["sum"] = json!(s); e["diff"] = json!(d); e["prod"] = json!(p); e["neg"] = json!(ng); e["iszero"] = json!(z); e["quot"] = json!(q);
                if a32 != ra { e["panic"] = json!("From<i32> and From<i64> disagree"); } }
            Err(m) => { e["panic"] = json!(m); }
        }
        sink.emit(e);
    }
    for it in 0..n {
        let nr = rng.gen_range(1..=6usize);
        let nc = if it % 3 == 0 { nr } else { rng.gen_range(1..=6usize) };
        let lim: i64 = *[1i64, 2, 10, 100, 1000, 1_000_000_000].choose(&mut rng).unwrap();
        let mut m: Vec<Vec<i64>> = (0..nr).map(|_| (0..nc).map(|_| rng.gen_range(-lim..=lim)).collect()).collect();
        match it % 5 {
            1 if nr >= 2 => { let k = rng.gen_range(-2..=2); m[nr - 1] = (0..nc).map(|j| m[0][j].saturating_mul(k).clamp(-1_000_000_000, 1_000_000_000)).collect(); }   // rank deficient
            2 if nc >= 2 => { for i in 0..nr { m[i][nc - 1] = m[i][0]; } }                                                   // repeated column
            _ => {}
        }
        // right-hand sides: one consistent (A times a small vector) when entries are small, one random
        let nb = rng.gen_range(1..=2usize);
        let mut b: Vec<Vec<i64>> = (0..nr).map(|_| (0..nb).map(|_| rng.gen_range(-lim..=lim)).collect()).collect();
        if lim <= 1000 { let x: Vec<i64> = (0..nc).map(|_| rng.gen_range(-3..=3)).collect(); for i in 0..nr { b[i][0] = (0..nc).map(|j| m[i][j] * x[j]).sum(); } }
        // every fourth system: columns of very different magnitude (a zero or unit column next to one near 10^9): bounds
        // computed from the right-hand side must use its largest column
        if it % 4 == 3 {
            b = (0..nr).map(|i| vec![if rng.gen_bool(0.5) { 0 } else { (i == 0) as i64 }, rng.gen_range(-1_000_000_000..=1_000_000_000i64), rng.gen_range(-lim..=lim)]).collect();
            if rng.gen_bool(0.5) { for r in b.iter_mut() { r.swap(0, 1); } }
        }
        emit_all(&mut sink, &m, &b, "random");
        if nr <= 4 && nc <= 4 { echelon_fixed(&mut sink, &m, &b); }
        if (nr <= 4 && nc <= 4) || lim <= 100 { if let Some(es) = esink.as_mut() { echelon_runs(es, &m, "random"); } }
    }
    // systems singular modulo the solver's prime: det = +-PRIME * k
    for k in [1i64, -1, 2, 3] {
        // [[PRIME mod-able entries]] : 2x2 with determinant k*PRIME via a = [[x, y],[z, w]], choose x*w - y*z = k*PRIME
        // PRIME = 55109 * 55109 - 1388 ... use the identity (t)(t) - (t*t - k*PRIME) * 1
        let t: i64 = 55_200;
        let m = vec![vec![t, t * t - k * PRIME], vec![1, t]];
        if m[0][1].abs() <= 1_000_000_000 { emit_all(&mut sink, &m, &vec![vec![1], vec![2]], "singular mod prime"); }
        let m3 = vec![vec![t, t * t - k * PRIME, 0], vec![1, t, 0], vec![3, -5, 1]];
        if m3[0][1].abs() <= 1_000_000_000 { emit_all(&mut sink, &m3, &vec![vec![1], vec![2], vec![3]], "singular mod prime"); }
    }
    // barycentric placement of random connected periodic graphs (pgraphs.rs is a client of the p-adic solver)
    {
        use rust_dsymbols::pgraphs::{PeriodicGraph, VectorLabelledEdge};
        for it in 0..(n / 2).max(20) {
            let d = rng.gen_range(1..=3usize);
            let nv = rng.gen_range(1..=6usize);
            let maxs: i64 = *[1i64, 2, 5, 1000].choose(&mut rng).unwrap();
            let mut edges: Vec<(usize, usize, Vec<i64>)> = vec![];
            // spanning tree, then extra edges and loops; canonical and distinct by construction
            for v in 2..=nv { let u = rng.gen_range(1..v); edges.push((u, v, (0..d).map(|_| rng.gen_range(-maxs..=maxs)).collect())); }
            for _ in 0..rng.gen_range(d..=d + 4) {
                let a = rng.gen_range(1..=nv); let b = rng.gen_range(1..=nv);
                let (h, t) = (a.min(b), a.max(b));
                let sh: Vec<i64> = if h == t { let mut x: Vec<i64> = (0..d).map(|_| rng.gen_range(0..=maxs)).collect(); if x.iter().all(|&c| c == 0) { x[0] = 1; } x }
                                   else { (0..d).map(|_| rng.gen_range(-maxs..=maxs)).collect() };
                if !edges.iter().any(|e| e.0 == h && e.1 == t && e.2 == sh) { edges.push((h, t, sh)); }
            }
            let _ = it;
            let mut e = json!({"ev": "barycentric", "dim": d, "edges": edges.iter().map(|(h, t, s)| json!([h, t, s])).collect::<Vec<_>>()});
            pending(&e);
            match catch(|| {
                let g = PeriodicGraph::from(edges.iter().map(|(h, t, s)| { let mut m = VecMatrix::<i64>::new(d, 1); for k in 0..d { m[k][0] = s[k]; } VectorLabelledEdge::make(*h, *t, m) }).collect::<Vec<_>>());
                let verts = g.vertices().clone();
                let pos: Vec<Vec<Value>> = verts.iter().map(|&v| { let p = g.position(v); (0..d).map(|k| rat(&p[k][0])).collect() }).collect();
                (verts, pos, g.edges().len())
            }) {
                Ok((verts, pos, ne)) => { e["verts"] = json!(verts); e["pos"] = json!(pos); if ne != edges.len() { e["panic"] = json!("the graph does not hold the edges it was given"); } }
                Err(m) => { e["panic"] = json!(m); }
            }
            sink.emit(e);
        }
    }
    // periodic graphs as data structures (PGraph.tla, conformance level): construction from arbitrary edge lists with reversed
    // duplicates, loops with mixed-sign shifts, repeated edges; edges are read back through Display ("h --(s1, s2)-> t")
    {
        use rust_dsymbols::pgraphs::{PeriodicGraph, VectorLabelledEdge};
        fn parse_edge(t: &str) -> Option<(usize, usize, Vec<i64>)> {
            let (h, rest) = t.split_once(" --(")?;
            let (sh, tl) = rest.split_once(")-> ")?;
            let s: Vec<i64> = if sh.trim().is_empty() { vec![] } else { sh.split(", ").map(|x| x.parse().ok()).collect::<Option<Vec<_>>>()? };
            Some((h.parse().ok()?, tl.parse().ok()?, s))
        }
        for _ in 0..(n / 3).max(20) {
            let d = rng.gen_range(1..=3usize);
            let nv = rng.gen_range(1..=4usize);
            let mut input: Vec<(usize, usize, Vec<i64>)> = vec![];
            for _ in 0..rng.gen_range(1..=7) {
                let e = (rng.gen_range(1..=nv), rng.gen_range(1..=nv), (0..d).map(|_| rng.gen_range(-2..=2i64)).collect::<Vec<_>>());
                input.push(e.clone());
                if rng.gen_bool(0.3) { input.push((e.1, e.0, e.2.iter().map(|x| -x).collect())); }
                if rng.gen_bool(0.15) { input.push(e); }
            }
            let mut e = json!({"ev": "pgraph", "dim": d, "input": input.iter().map(|(h, t, s)| json!([h, t, s])).collect::<Vec<_>>()});
            pending(&e);
            match catch(|| {
                let g = PeriodicGraph::from(input.iter().map(|(h, t, s)| { let mut m = VecMatrix::<i64>::new(d, 1); for k in 0..d { m[k][0] = s[k]; } VectorLabelledEdge::make(*h, *t, m) }).collect::<Vec<_>>());
                let edges: Vec<Option<(usize, usize, Vec<i64>)>> = g.edges().iter().map(|x| parse_edge(&x.to_string())).collect();
                let verts = g.vertices().clone();
                let inc: Vec<Vec<Option<(usize, usize, Vec<i64>)>>> = verts.iter().map(|&v| g.incidences(v).map(|l| l.iter().map(|x| parse_edge(&x.to_string())).collect()).unwrap_or_default()).collect();
                (edges, verts, inc, g.dim())
            }) {
                Ok((edges, verts, inc, gd)) => {
                    if edges.iter().any(|x| x.is_none()) || inc.iter().flatten().any(|x| x.is_none()) { e["panic"] = json!("an edge does not print as h --(s)-> t"); }
                    else {
                        let tri = |x: &Option<(usize, usize, Vec<i64>)>| { let (h, t, s) = x.clone().unwrap(); json!([h, t, s]) };
                        e["edges"] = json!(edges.iter().map(tri).collect::<Vec<_>>());
                        e["verts"] = json!(verts);
                        e["inc"] = json!(inc.iter().map(|l| l.iter().map(tri).collect::<Vec<_>>()).collect::<Vec<_>>());
                        e["gdim"] = json!(gd);
                    }
                }
                Err(m) => { e["panic"] = json!(m); }
            }
            sink.emit(e);
        }
    }
    if let Some(es) = esink.as_mut() { for e in PADIC.with(|p| std::mem::take(&mut *p.borrow_mut())) { es.emit(e); } es.flush(); }
    flush_deferred(&mut sink);
    sink.flush();
    println!("{}", json!({"events": sink.n}));
}

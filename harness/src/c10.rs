//! C10 — free words.
use crate::common::*;
use rand::prelude::*;
use rust_dsymbols::fpgroups::free_words::*;
use serde_json::{json, Value};

fn w(v: &Value) -> Vec<isize> { v.as_array().unwrap().iter().map(|x| x.as_i64().unwrap() as isize).collect() }
fn fw(v: &Value) -> FreeWord { FreeWord::new(w(v)) }
pub fn letters(x: &FreeWord) -> Vec<isize> { x.iter().cloned().collect() }
fn ord(a: &FreeWord, b: &FreeWord) -> i64 {
    match a.cmp(b) { std::cmp::Ordering::Less => -1, std::cmp::Ordering::Equal => 0, std::cmp::Ordering::Greater => 1 }
}

struct Rep { n: usize, bad: Vec<Value>, conf: Vec<String> }
impl Rep {
    fn chk(&mut self, what: &str, got: Result<Vec<isize>, String>, exp: &Value, case: &Value) {
        self.n += 1;
        match got {
            Ok(g) => if g != w(exp) && self.bad.len() < 5 { self.bad.push(json!({"what": what, "got": g, "expected": exp, "case": case})); },
            Err(m) => if self.bad.len() < 5 { self.bad.push(json!({"what": what, "panic": m, "case": case})); },
        }
    }
}

fn replay_case(c: &Value, r: &mut Rep) {
    match c["op"].as_str().unwrap() {
        "new" => { let raw = w(&c["raw"]); r.chk("new", catch(|| letters(&FreeWord::new(raw.clone()))), &c["w"], c);
                   r.chk("from", catch(|| letters(&FreeWord::from(raw.clone()))), &c["w"], c); }
        "unary" => {
            let a = fw(&c["a"]);
            if letters(&a) != w(&c["a"]) { r.bad.push(json!({"what": "new changed a reduced word", "case": c})); return; }
            r.chk("inverse", catch(|| letters(&a.inverse())), &c["inv"], c);
            // the representative must be *a* least element in the library's own order (statement level)
            r.n += 1;
            match catch(|| (relator_representative(&a), relator_permutations(&a))) {
                Ok((rep, perms)) => {
                    let mut got: Vec<Vec<isize>> = perms.iter().map(letters).collect(); got.sort();
                    let mut exp: Vec<Vec<isize>> = c["perms"].as_array().unwrap().iter().map(w).collect(); exp.sort();
                    if got != exp { r.bad.push(json!({"what": "relator_permutations is not the set of rotations and inverses", "got": got, "case": c})); }
                    else if !perms.contains(&rep) || perms.iter().any(|y| y < &rep) {
                        r.bad.push(json!({"what": "relator_representative is not least among the rotations and inverses", "got": letters(&rep), "case": c})); }
                    else if letters(&rep) != w(&c["rep"]) { r.conf.push(format!("representative of {:?} differs from the reference order", letters(&a))); }
                    // identical for every rotation and inversion of a cyclically reduced word
                    let la = letters(&a);
                    if la.len() < 2 || la[0] != -la[la.len() - 1] {
                        for y in perms.iter() { if relator_representative(y) != rep { r.bad.push(json!({"what": "representative differs between rotations/inverses", "case": c})); break; } }
                    }
                }
                Err(m) => r.bad.push(json!({"what": "relator_representative/permutations", "panic": m, "case": c})),
            }
            for (k, p) in c["pows"].as_array().unwrap().iter().enumerate() { let m = k as isize - 2; r.chk(&format!("raised_to({m})"), catch(|| letters(&a.raised_to(m))), p, c); }
            for (k, p) in c["rots"].as_array().unwrap().iter().enumerate() { let i = k as isize - 3; r.chk(&format!("rotated({i})"), catch(|| letters(&a.rotated(i))), p, c); }
        }
        "binary" => {
            let (a, b) = (fw(&c["a"]), fw(&c["b"]));
            let e = &c["mul"];
            r.chk("&a*&b", catch(|| letters(&(&a * &b))), e, c);
            r.chk("&a*b", catch(|| letters(&(&a * b.clone()))), e, c);
            r.chk("a*&b", catch(|| letters(&(a.clone() * &b))), e, c);
            r.chk("a*b", catch(|| letters(&(a.clone() * b.clone()))), e, c);
            r.chk("a*=&b", catch(|| { let mut t = a.clone(); t *= &b; letters(&t) }), e, c);
            if b.len() == 1 { let g = b[0]; r.chk("&a*g", catch(|| letters(&(&a * g))), e, c); r.chk("a*g", catch(|| letters(&(a.clone() * g))), e, c); }
            r.chk("commutator", catch(|| letters(&a.commutator(&b))), &c["comm"], c);
            r.n += 1;
            let cm = ord(&a, &b);
            if (cm == 0) != (a == b) || (a == b) != (w(&c["a"]) == w(&c["b"])) || ord(&b, &a) != -cm {
                r.bad.push(json!({"what": "ordering incompatible with equality / not antisymmetric", "case": c}));
            } else if cm != c["cmp"].as_i64().unwrap() { r.conf.push(format!("cmp({:?},{:?}) differs from the reference order", letters(&a), letters(&b))); }
        }
        _ => {}
    }
}

/// one transition case of the Words machine: replay the history on real registers
fn replay_history(c: &Value, r: &mut Rep) {
    let ops = c["ops"].as_array().unwrap();
    let nr = c["regs"].as_array().unwrap().len();
    let res = catch(|| {
        let mut reg: Vec<FreeWord> = vec![FreeWord::empty(); nr];
        for o in ops {
            let d = o["r"].as_u64().unwrap() as usize - 1;
            let s = o["s"].as_u64().map(|x| x as usize - 1).unwrap_or(0);
            let t = o["t"].as_u64().map(|x| x as usize - 1).unwrap_or(0);
            let v = match o["op"].as_str().unwrap() {
                "new" => FreeWord::new(w(&o["raw"])),
                "mul" => match o["form"].as_str().unwrap() {
                    "rr" => &reg[s] * &reg[t], "rv" => &reg[s] * reg[t].clone(),
                    "vr" => reg[s].clone() * &reg[t], _ => reg[s].clone() * reg[t].clone() },
                "mul_letter" => { let g = o["g"].as_i64().unwrap() as isize; if o["form"] == "r" { &reg[s] * g } else { reg[s].clone() * g } }
                "mul_assign" => { let rhs = reg[s].clone(); let mut x = reg[d].clone(); x *= &rhs; x }
                "inverse" => reg[s].inverse(),
                "raised_to" => reg[s].raised_to(o["m"].as_i64().unwrap() as isize),
                "commutator" => reg[s].commutator(&reg[t]),
                "rotated" => reg[s].rotated(o["i"].as_i64().unwrap() as isize),
                x => panic!("unknown op {x}"),
            };
            reg[d] = v;
        }
        reg.iter().map(letters).collect::<Vec<_>>()
    });
    r.n += 1;
    match res {
        Ok(regs) => if json!(regs) != c["regs"] && r.bad.len() < 5 { r.bad.push(json!({"what": "registers after the history", "got": regs, "case": c})); },
        Err(m) => if r.bad.len() < 5 { r.bad.push(json!({"what": "history", "panic": m, "case": c})); },
    }
}

pub fn replay(args: &[String]) {
    let mut r = Rep { n: 0, bad: vec![], conf: vec![] };
    let mut nontrivial = 0;
    let mut ncases = 0usize;
    let mut sample: Option<Value> = None;
    for_each_line(&args[0], |c| {
        ncases += 1;
        if c.get("ops").map_or(false, |o| o.is_array()) {
            replay_history(&c, &mut r);
            if c["ops"].as_array().unwrap().len() >= 2 { nontrivial += 1; }
        } else {
            replay_case(&c, &mut r);
            if c["op"] == "binary" && w(&c["mul"]).len() < w(&c["a"]).len() + w(&c["b"]).len() { nontrivial += 1; }
            if c["op"] == "new" && w(&c["w"]).len() < w(&c["raw"]).len() { nontrivial += 1; }
            if c["op"] == "unary" && w(&c["a"]).len() >= 2 { nontrivial += 1; }
        }
        if ncases == 1000 || sample.is_none() { sample = Some(c); }
    });
    r.conf.truncate(5);
    println!("{}", json!({"cases": ncases, "comparisons": r.n, "nontrivial": nontrivial, "mismatches": r.bad,
                          "conformance": r.conf, "sample": sample}));
}

fn rand_word(rng: &mut StdRng, ng: isize, len: usize) -> Vec<isize> {
    (0..len).map(|_| { let g = rng.gen_range(1..=ng); if rng.gen_bool(0.5) { g } else { -g } }).collect()
}

pub fn drive(args: &[String]) {
    let out = arg(args, "--out").unwrap();
    let nops = arg_usize(args, "--ops", 300);
    let maxlen = arg_usize(args, "--maxlen", 60);
    let mut sink = Sink::create(&out);
    let mut rng = rng(10);
    // (a) the comparison table of all reduced words of length <= 3 over 2 generators plus a few over 3
    let mut words: Vec<FreeWord> = vec![];
    let mut seen = std::collections::HashSet::new();
    let mut stack: Vec<Vec<isize>> = vec![vec![]];
    while let Some(x) = stack.pop() {
        let f = FreeWord::new(x.clone());
        if letters(&f) == x && seen.insert(x.clone()) {
            words.push(f);
            if x.len() < 3 { for g in [1, 2, -1, -2] { let mut y = x.clone(); y.push(g); stack.push(y); } }
        }
    }
    words.shuffle(&mut rng);
    let order_event = |words: &Vec<FreeWord>| -> Value {
        let ev = catch(|| {
            let cmp: Vec<Vec<i64>> = words.iter().map(|a| words.iter().map(|b| ord(a, b)).collect()).collect();
            let eq: Vec<Vec<bool>> = words.iter().map(|a| words.iter().map(|b| a == b).collect()).collect();
            let reps: Vec<Vec<isize>> = words.iter().map(|a| letters(&relator_representative(a))).collect();
            let perms: Vec<Vec<Vec<isize>>> = words.iter().map(|a| relator_permutations(a).iter().map(letters).collect()).collect();
            json!({"ev": "word_order", "words": words.iter().map(letters).collect::<Vec<_>>(), "cmp": cmp, "eq": eq, "reps": reps, "perms": perms})
        });
        match ev { Ok(e) => e, Err(m) => json!({"ev": "word_order", "panic": m}) }
    };
    sink.emit(order_event(&words));
    // (a2) words with internal repetition: u^k followed by a proper prefix of u (overlapping but not a power), proper powers,
    // and their conjugates, each with ALL its rotations and inverses as one closed comparison table: the least rotation of
    // such a word is where shortcuts for periodic words go wrong
    {
        let mut us: Vec<Vec<isize>> = vec![];
        for a in [1isize, 2, -1, -2] { for b in [1isize, 2, -1, -2] { if a != -b { us.push(vec![a, b]); for c in [1isize, 2, -2] { if b != -c { us.push(vec![a, b, c]); } } } } }
        us.shuffle(&mut rng);
        let nper = arg_usize(args, "--periodic", 60);
        let mut done = std::collections::HashSet::new();
        let mut emitted = 0;
        'outer: for u in us {
            for k in 1..=3usize { for pre in 0..u.len() {
                let mut w: Vec<isize> = vec![];
                for _ in 0..k { w.extend(&u); }
                w.extend(&u[..pre]);
                let f = FreeWord::new(w.clone());
                if letters(&f) != w || w.len() < 4 || w.len() > 10 { continue; }
                // the closed set: rotations and inverses by direct construction (not by the library)
                let mut set: Vec<Vec<isize>> = vec![];
                for r in 0..w.len() { let mut x = w[r..].to_vec(); x.extend(&w[..r]); let y: Vec<isize> = x.iter().rev().map(|t| -t).collect();
                    for z in [x, y] { if letters(&FreeWord::new(z.clone())) == z && !set.contains(&z) { set.push(z); } } }
                // only cyclically reduced words have rotations that are all reduced; skip the others
                if set.len() < 2 || w[0] == -w[w.len() - 1] { continue; }
                let mut key = set.clone(); key.sort();
                if !done.insert(key) { continue; }
                set.shuffle(&mut rng);
                sink.emit(order_event(&set.iter().map(|z| FreeWord::new(z.clone())).collect()));
                emitted += 1;
                if emitted >= nper { break 'outer; }
            } }
        }
    }
    // (b) random operations on long words over 3 generators, with planted cancellations
    for k in 0..nops {
        let la = rng.gen_range(0..=maxlen);
        let a = FreeWord::new(rand_word(&mut rng, 3, la));
        let lb = rng.gen_range(0..=maxlen);
        let mut bl = rand_word(&mut rng, 3, lb);
        if rng.gen_bool(0.6) {
            // make b start with the inverse of a suffix of a, so that the product cancels deeply
            let la = letters(&a); let cut = rng.gen_range(0..=la.len());
            let mut pre: Vec<isize> = la[la.len() - cut..].iter().rev().map(|x| -x).collect();
            pre.extend(bl); bl = pre;
        }
        let b = FreeWord::new(bl);
        let (ja, jb) = (json!(letters(&a)), json!(letters(&b)));
        let mk = |op: &str, extra: Value, res: Result<FreeWord, String>| {
            let mut e = json!({"ev": "word_op", "op": op, "a": ja, "b": jb});
            for (k, v) in extra.as_object().unwrap() { e[k] = v.clone(); }
            match res { Ok(x) => e["out"] = json!(letters(&x)), Err(m) => e["panic"] = json!(m) }
            e
        };
        let e = match k % 9 {
            0 => mk("mul", json!({}), catch(|| &a * &b)),
            1 => mk("mul_assign", json!({}), catch(|| { let mut t = a.clone(); t *= &b; t })),
            2 => mk("mul", json!({}), catch(|| a.clone() * b.clone())),
            3 => mk("inverse", json!({}), catch(|| a.inverse())),
            4 => { let m = rng.gen_range(-3..=4); mk("raised_to", json!({"m": m}), catch(|| a.raised_to(m))) }
            5 => mk("commutator", json!({}), catch(|| a.commutator(&b))),
            6 => { let i = rng.gen_range(-(maxlen as isize)..=2 * maxlen as isize); mk("rotated", json!({"i": i}), catch(|| a.rotated(i))) }
            7 => { let g = *[1, 2, 3, -1, -2, -3].choose(&mut rng).unwrap(); mk("mul_letter", json!({"g": g}), catch(|| &a * g)) }
            _ => { let lr = rng.gen_range(0..=maxlen); let mut raw = rand_word(&mut rng, 3, lr); for _ in 0..rng.gen_range(0..4) { let p = rng.gen_range(0..=raw.len()); raw.insert(p, 0); }
                   mk("new", json!({"raw": raw}), catch(|| FreeWord::new(raw.clone()))) }
        };
        sink.emit(e);
    }
    sink.flush();
    println!("{}", json!({"events": sink.n}));
}

//! C01 — text form round trip; parsing never panics.
use crate::common::*;
use crate::corpus::*;
use rand::prelude::*;
use rust_dsymbols::covers::finite_universal_cover;
use rust_dsymbols::delaney2d::{is_euclidean, is_spherical, toroidal_cover};
use rust_dsymbols::dsets::*;
use rust_dsymbols::dsyms::*;
use serde_json::{json, Value};
use std::io::{Read, Write};

fn render(t: &Value, style: usize) -> String {
    let sep = if style == 1 { "  " } else { " " };
    let lsep = if style == 1 { " ,\n " } else { "," };
    let lists = |v: &Value| v.as_array().unwrap().iter().map(|l| l.as_array().unwrap().iter().map(|x| x.to_string()).collect::<Vec<_>>().join(sep)).collect::<Vec<_>>().join(lsep);
    let (size, dim) = (t["size"].as_i64().unwrap(), t["dim"].as_i64().unwrap());
    let ext = if dim == 2 && style == 0 { format!("{}", size) } else { format!("{}{}{}", size, sep, dim) };
    if style == 1 { format!(" < 1.1 : {} : {} :\n {} > ", ext, lists(&t["ops"]), lists(&t["ms"])) }
    else { format!("<1.1:{}:{}:{}>", ext, lists(&t["ops"]), lists(&t["ms"])) }
}

/// parse in this process; a panic becomes data
fn parse_here(text: &str) -> Value {
    let mut e = json!({"ev": "parse", "text": text});
    match catch(|| text.parse::<PartialDSym>()) {
        Err(m) => { e["panic"] = json!(m); }
        Ok(Err(_)) => { e["ok"] = json!(false); }
        Ok(Ok(ds)) => {
            e["ok"] = json!(true);
            // TLC integers are 32-bit: a symbol with a branching number beyond 2^31 - 1 cannot be handed to the
            // specification; for such symbols only totality and the (trivial) equality of the re-parsed symbol are recorded
            let huge = (0..ds.dim()).any(|i| (1..=ds.size()).any(|d| ds.v(i, i + 1, d).unwrap_or(0) > i32::MAX as usize)) || ds.size() > 100_000;
            e["huge"] = json!(huge);
            e["sym"] = if huge { json!({}) } else { dsym_json(&ds) };
            match catch(|| { let p = ds.to_string(); let r = p.parse::<PartialDSym>(); (p, r) }) {
                Err(m) => { e["panic"] = json!(format!("print/reparse: {m}")); }
                Ok((p, Err(_))) => { e["printed"] = json!(p); e["reparse_ok"] = json!(false); e["reparse_same"] = json!(false); e["reparse_sym"] = json!({}); }
                Ok((p, Ok(d2))) => { e["printed"] = json!(p); e["reparse_ok"] = json!(true); e["reparse_same"] = json!(d2 == ds);
                                     e["reparse_sym"] = if huge { json!({}) } else { dsym_json(&d2) }; }
            }
        }
    }
    e
}

/// texts with huge numbers are parsed in a sacrificial child process: an allocation failure
/// aborts the process and cannot be caught as a panic
fn parse_guarded(text: &str) -> Value {
    let risky = text.split(|c: char| !c.is_ascii_digit()).any(|t| t.len() >= 7);
    if !risky { return parse_here(text); }
    let exe = std::env::current_exe().unwrap();
    let mut child = std::process::Command::new(exe).args(["C01", "one"])
        .stdin(std::process::Stdio::piped()).stdout(std::process::Stdio::piped()).stderr(std::process::Stdio::null())
        .spawn().expect("spawn child");
    child.stdin.take().unwrap().write_all(text.as_bytes()).unwrap();
    let out = child.wait_with_output().unwrap();
    if out.status.success() {
        if let Ok(v) = serde_json::from_slice::<Value>(&out.stdout) { return v; }
    }
    json!({"ev": "parse", "text": text, "panic": format!("child process died ({:?})", out.status)})
}

pub fn one(_args: &[String]) {
    let mut s = String::new();
    std::io::stdin().read_to_string(&mut s).unwrap();
    println!("{}", parse_here(&s));
}

/// spec -> impl -> spec: render the TLC-generated texts in two white-space styles, parse them,
/// and record result plus the specification's expectation
pub fn replay(args: &[String]) {
    let cases = read_lines(&args[0]);
    let out = arg(args, "--out").unwrap();
    let mut sink = Sink::create(&out);
    let mut rng0 = rng(101);
    let probes: Vec<PartialDSym> = { let mut v = generated_2d(4); v.extend(sets_with_branching(3, 2, &[1, 2, 3], 3, &mut rng0)); v.into_iter().filter(|s| s.size() >= 2).collect() };
    let mut nrej = 0usize;
    for c in &cases {
        for style in 0..2 {
            let text = render(&c["text"], style);
            let mut e = parse_guarded(&text);
            e["exp_ok"] = c["ok"].clone();
            e["exp_sym"] = if c["ok"] == true { c["sym"].clone() } else { json!({}) };
            e["mutated"] = c["mutated"].clone();
            let rejected = e["ok"] == false;
            sink.emit(e);
            // see drive(): the round trip of a valid symbol right after a rejected text (every fourth rejection)
            if rejected { nrej += 1; if nrej % 4 == 0 { sink.emit(roundtrip(&probes[(nrej / 4) % probes.len()], "after a rejected text")); } }
        }
    }
    sink.flush();
    println!("{}", json!({"cases": cases.len(), "events": sink.n}));
}

fn roundtrip(s: &PartialDSym, src: &str) -> Value {
    let mut e = json!({"ev": "roundtrip", "src": src, "sym": dsym_json(s)});
    match catch(|| { let t = s.to_string(); let r = t.parse::<PartialDSym>(); (t, r) }) {
        Err(m) => { e["panic"] = json!(m); }
        Ok((t, Err(m))) => { e["text"] = json!(t); e["ok"] = json!(false); e["back"] = json!({}); e["err"] = json!(m); }
        Ok((t, Ok(b))) => { e["text"] = json!(t); e["ok"] = json!(true); e["back"] = dsym_json(&b); }
    }
    e
}

fn mutate(text: &str, rng: &mut StdRng) -> String {
    let mut b: Vec<u8> = text.as_bytes().to_vec();
    let tokens: [&str; 16] = ["0", "1", "2", "3", "10", " ", ",", ":", "<", ">", ".", "  ", "18446744073709551615", "4611686018427387904", "99999999999999999999", "-1"];
    for _ in 0..rng.gen_range(1..=3) {
        if b.is_empty() { break; }
        let p = rng.gen_range(0..b.len());
        match rng.gen_range(0..5) {
            0 => { b.remove(p); }
            1 => { let t = tokens.choose(rng).unwrap().as_bytes(); for (k, &c) in t.iter().enumerate() { b.insert(p + k, c); } }
            2 => { b[p] = *b"0123456789 ,:<>.x\n".choose(rng).unwrap(); }
            3 => { let q = rng.gen_range(0..b.len()); b.swap(p, q); }
            _ => { b.truncate(p); }
        }
    }
    String::from_utf8_lossy(&b).to_string()
}

pub fn drive(args: &[String]) {
    let out = arg(args, "--out").unwrap();
    let files = arg(args, "--universe").unwrap_or_default();
    let nrand = arg_usize(args, "--random", 3000);
    let maxgen = arg_usize(args, "--maxgen", 5);
    let nbig = arg_usize(args, "--big", 4);
    let mut sink = Sink::create(&out);
    let mut rng = rng(1);
    // (a) round trips: universes, generator outputs, renumberings, large multi-digit covers
    let mut corpus: Vec<PartialDSym> = syms_from_files(&files);
    corpus.extend(generated_2d(maxgen));
    corpus.extend(sets_with_branching(3, 3, &[1, 2, 3, 4], 3, &mut rng));
    corpus.extend(sets_with_branching(1, 4, &[1, 2, 3], 3, &mut rng));
    let mut texts: Vec<String> = vec![];
    for s in &corpus {
        sink.emit(roundtrip(s, "corpus"));
        if s.size() >= 3 && rng.gen_bool(0.5) { sink.emit(roundtrip(&renumber(s, &rand_perm(s.size(), &mut rng)), "renumbered")); }
        if rng.gen_bool(0.2) { texts.push(s.to_string()); }
    }
    let mut cands: Vec<PartialDSym> = generated_2d(maxgen.max(4)).into_iter().filter(|s| s.size() >= 3).collect();
    cands.shuffle(&mut rng);
    let mut nb = 0;
    for s in cands {
        if nb >= nbig { break; }
        let c = if is_euclidean(&s) { catch(|| toroidal_cover(&s)).ok() } else if is_spherical(&s) { catch(|| finite_universal_cover(&s)).ok() } else { None };
        if let Some(c) = c { if c.size() >= 48 && c.size() <= 480 {
            nb += 1;
            sink.emit(roundtrip(&c, "cover"));
            sink.emit(roundtrip(&renumber(&c, &rand_perm(c.size(), &mut rng)), "cover renumbered"));
        } }
    }
    // (b) mutated valid texts and token soups
    texts.push("<1.1:1:1,1,1:3,3>".into());
    texts.push("<1.1:2 3:2,1 2,1 2,2:6,3 2,6>".into());
    for k in 0..nrand {
        let t = if k % 4 == 3 {
            let n = rng.gen_range(0..30);
            (0..n).map(|_| *["<", ">", ":", ",", ".", " ", "1", "2", "3", "0", "12", "\n", "1.1", "<1.1:", "18446744073709551616"].choose(&mut rng).unwrap()).collect::<Vec<_>>().join("")
        } else {
            mutate(texts.choose(&mut rng).unwrap(), &mut rng)
        };
        let e = parse_guarded(&t);
        let rejected = e["ok"] == false;
        sink.emit(e);
        // a parser may keep scratch state between calls; a REJECTED text is where clean-up code is skipped.  Half of the
        // rejections are followed at once by the round trip of a valid symbol, which must not notice its predecessor
        if rejected && rng.gen_bool(0.5) {
            let s = &corpus[rng.gen_range(0..corpus.len())];
            sink.emit(roundtrip(s, "after a rejected text"));
        }
    }
    // huge extents with too little data (must be rejected before anything is allocated)
    for t in ["<1.1:4611686018427387904:1,1,1:1,1>", "<1.1:1 18446744073709551615:1:1>", "<1.1:1000000000000 2:1,1,1:3,3>",
              "<1.1:18446744073709551615 18446744073709551615:1:1>", "<1.1:3074457345618258603 5:1:1>"] {
        sink.emit(parse_guarded(t));
    }
    sink.flush();
    println!("{}", json!({"events": sink.n}));
}

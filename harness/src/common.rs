//! Shared helpers of the conformance harness: event sink, panic capture, JSON encodings,
//! renumbering, corpora.  Nothing in here decides a property: the harness only drives the
//! library and records what it did; the specification (TLC) judges the records, and the
//! replayers compare observations with values the specification computed.
#![allow(dead_code)]
use rand::prelude::*;
use rust_dsymbols::derived::*;
use rust_dsymbols::dsets::*;
use rust_dsymbols::dsyms::*;
use serde_json::{json, Value};
use std::io::Write;
use std::panic::{self, AssertUnwindSafe};

pub struct Sink {
    w: std::io::BufWriter<std::fs::File>,
    pub n: usize,
}

impl Sink {
    pub fn create(path: &str) -> Sink {
        Sink { w: std::io::BufWriter::new(std::fs::File::create(path).expect("create trace file")), n: 0 }
    }
    pub fn emit(&mut self, v: Value) {
        writeln!(self.w, "{}", v).unwrap();
        self.n += 1;
    }
    pub fn flush(&mut self) {
        self.w.flush().unwrap();
    }
}

pub fn seed() -> u64 {
    std::env::var("DSV_SEED").ok().and_then(|s| s.parse().ok()).unwrap_or(1)
}

pub fn rng(salt: u64) -> StdRng {
    StdRng::seed_from_u64(seed().wrapping_mul(0x9E3779B97F4A7C15).wrapping_add(salt))
}

/// Written before a call that may not return; the driver reads it when the watchdog fires.
pub fn pending(v: &Value) {
    use std::io::{Seek, SeekFrom};
    thread_local! { static PEND: std::cell::RefCell<Option<std::fs::File>> = std::cell::RefCell::new(None); }
    PEND.with(|p| {
        let mut p = p.borrow_mut();
        if p.is_none() {
            if let Ok(dir) = std::env::var("DSV_WORK") {
                *p = std::fs::File::create(format!("{dir}/pending.json")).ok();
            }
        }
        if let Some(f) = p.as_mut() {
            let s = v.to_string();
            let _ = f.seek(SeekFrom::Start(0));
            let _ = f.write_all(s.as_bytes());
            let _ = f.set_len(s.len() as u64);
        }
    });
}

pub fn quiet_panics() {
    panic::set_hook(Box::new(|_| {}));
}

/// Run a library call; a panic is data (Err(message)), never a harness crash.
pub fn catch<T>(f: impl FnOnce() -> T) -> Result<T, String> {
    match panic::catch_unwind(AssertUnwindSafe(f)) {
        Ok(v) => Ok(v),
        Err(e) => Err(if let Some(s) = e.downcast_ref::<&str>() {
            s.to_string()
        } else if let Some(s) = e.downcast_ref::<String>() {
            s.clone()
        } else {
            "panic".to_string()
        }),
    }
}

pub fn arg(args: &[String], name: &str) -> Option<String> {
    args.iter().position(|a| a == name).and_then(|k| args.get(k + 1).cloned())
}

pub fn arg_usize(args: &[String], name: &str, default: usize) -> usize {
    arg(args, name).and_then(|s| s.parse().ok()).unwrap_or(default)
}

// ---------------------------------------------------------------- D-sets / D-symbols as JSON

/// {"n","dim","op":[[..n..] x (dim+1)]} with 0 for undefined
pub fn dset_json<T: DSet>(ds: &T) -> Value {
    let op: Vec<Vec<usize>> = (0..=ds.dim())
        .map(|i| (1..=ds.size()).map(|d| ds.op(i, d).unwrap_or(0)).collect())
        .collect();
    json!({"n": ds.size(), "dim": ds.dim(), "op": op})
}

/// adds "v":[[..n..] x dim]: branching of the (i,i+1)-orbit through each chamber (0 undefined)
pub fn dsym_json<T: DSym>(ds: &T) -> Value {
    let mut j = dset_json(ds);
    let v: Vec<Vec<usize>> = (0..ds.dim())
        .map(|i| (1..=ds.size()).map(|d| ds.v(i, i + 1, d).unwrap_or(0)).collect())
        .collect();
    j["v"] = json!(v);
    j
}

pub fn dset_from_json(j: &Value) -> PartialDSet {
    let n = j["n"].as_u64().unwrap() as usize;
    let dim = j["dim"].as_u64().unwrap() as usize;
    let mut ds = PartialDSet::new(n, dim);
    for i in 0..=dim {
        for d in 1..=n {
            let e = j["op"][i][d - 1].as_u64().unwrap() as usize;
            if e != 0 && e >= d {
                ds.set(i, d, e);
            }
        }
    }
    ds
}

pub fn dsym_from_json(j: &Value) -> PartialDSym {
    let ds = dset_from_json(j);
    let vs = j["v"].clone();
    build_sym_using_vs(ds, |i, d| match vs[i][d - 1].as_u64() {
        Some(0) | None => None,
        Some(v) => Some(v as usize),
    })
}

/// perm[d] = new name of d (1-based, perm[0] unused)
pub fn renumber<T: DSym>(ds: &T, perm: &[usize]) -> PartialDSym {
    let n = ds.size();
    let mut inv = vec![0; n + 1];
    for d in 1..=n {
        inv[perm[d]] = d;
    }
    build_sym_using_vs(
        build_set(n, ds.dim(), |i, d| ds.op(i, inv[d]).map(|e| perm[e])),
        |i, d| ds.v(i, i + 1, inv[d]),
    )
}

pub fn renumber_set<T: DSet>(ds: &T, perm: &[usize]) -> PartialDSet {
    let n = ds.size();
    let mut inv = vec![0; n + 1];
    for d in 1..=n {
        inv[perm[d]] = d;
    }
    build_set(n, ds.dim(), |i, d| ds.op(i, inv[d]).map(|e| perm[e]))
}

pub fn rand_perm(n: usize, rng: &mut StdRng) -> Vec<usize> {
    let mut p: Vec<usize> = (1..=n).collect();
    p.shuffle(rng);
    let mut r = vec![0];
    r.extend(p);
    r
}

/// streaming version for very large case files
pub fn for_each_line(path: &str, mut f: impl FnMut(Value)) {
    use std::io::BufRead;
    let file = std::io::BufReader::new(std::fs::File::open(path).expect("open cases"));
    for l in file.lines() {
        let l = l.expect("read line");
        if l.trim().is_empty() { continue; }
        let v: Value = serde_json::from_str(&l).expect("json");
        f(if let Value::String(inner) = &v { serde_json::from_str(inner).expect("inner json") } else { v });
    }
}

pub fn read_lines(path: &str) -> Vec<Value> {
    let s = std::fs::read_to_string(path).expect("read cases");
    s.lines()
        .filter(|l| !l.trim().is_empty())
        .map(|l| {
            // TLC prints ToJson strings as JSON string literals; accept both forms
            let v: Value = serde_json::from_str(l).expect("json");
            if let Value::String(inner) = &v {
                serde_json::from_str(inner).expect("inner json")
            } else {
                v
            }
        })
        .collect()
}

/// Decoy calls.  A library routine may (wrongly) carry state from one call to the next - a memo keyed by part of its
/// argument, a cache of its last answer.  Before about half of the observed calls the driver therefore runs the same
/// routine on a RELATED input and throws the result away: the same operations with one branching number changed, or the
/// same branching on a renumbered chamber system.  Seeded by the input itself, so an event is reproducible on its own.
pub fn with_decoy<T: rust_dsymbols::dsyms::DSym>(s: &T, mut f: impl FnMut(&PartialDSym)) {
    use rust_dsymbols::dsets::DSet;
    use std::hash::{Hash, Hasher};
    let mut h = std::collections::hash_map::DefaultHasher::new();
    dsym_json(s).to_string().hash(&mut h);
    let mut r = StdRng::seed_from_u64(h.finish() ^ seed());
    let n = s.size();
    if n == 0 || !s.is_complete() || r.gen_bool(0.5) || std::env::var("DSV_NODECOY").is_ok() { return; }
    let _ = catch(|| {
        let j = dsym_json(s);
        let mut d = if r.gen_bool(0.5) {
            // same operations, the branching of one orbit changed (1 <-> 2, v -> v + 1)
            let mut j = j.clone();
            let i = r.gen_range(0..s.dim());
            let c = r.gen_range(1..=n);
            let old = s.v(i, i + 1, c).unwrap_or(1);
            let new = if old == 1 { 2 } else if r.gen_bool(0.5) { 1 } else { old + 1 };
            for e in s.orbit([i, i + 1], c) { j["v"][i][e - 1] = serde_json::json!(new); }
            dsym_from_json(&j)
        } else {
            renumber(s, &rand_perm(n, &mut r))
        };
        f(&mut d);
    });
}

//! C12 — low-index enumeration; C13 — stabiliser, core and intersection tables.
use crate::c10::letters;
use crate::common::*;
use crate::corpus::*;
use crate::groups::*;
use rand::prelude::*;
use rust_dsymbols::covers::cover_for_table;
use rust_dsymbols::delaney2d::is_spherical;
use rust_dsymbols::dsets::*;
use rust_dsymbols::dsyms::*;
use rust_dsymbols::fpgroups::cosets::*;
use rust_dsymbols::fpgroups::free_words::FreeWord;
use rust_dsymbols::fpgroups::stabilizer::stabilizer;
use rust_dsymbols::fundamental_group::fundamental_group;
use serde_json::{json, Value};

/// largest index j for which all (j!)^n homomorphisms can be enumerated by TLC in reasonable time
fn kcheck(ng: usize, thorough: bool) -> usize {
    // (Sym(6)^2 = 518 k homomorphisms took TLC 40 min and was dropped)
    match ng { 0 | 1 => if thorough { 8 } else { 7 }, 2 => 5, 3 => 4, 4 => 3, _ => 2 }
}

fn lowindex_event(name: &str, ng: usize, rels: &Vec<FreeWord>, k: usize, kc: usize) -> Value {
    let mut e = json!({"ev": "lowindex", "name": name, "ng": ng, "rels": rels.iter().map(letters).collect::<Vec<_>>(), "k": k, "kcheck": kc.min(k)});
    pending(&e);
    match catch(|| coset_tables(ng, rels, k).map(|t| table_json(&t)).collect::<Vec<_>>()) {
        Ok(ts) => { e["tables"] = json!(ts); }
        Err(m) => { e["panic"] = json!(m); }
    }
    // the same group presented with renamed / inverted generators: the number of tables per index belongs to the group
    // (seeded by the presentation itself so that the event is reproducible)
    use std::hash::{Hash, Hasher};
    let mut h = std::collections::hash_map::DefaultHasher::new();
    format!("{:?}{}", e["rels"], k).hash(&mut h);
    let mut r = StdRng::seed_from_u64(h.finish() ^ seed());
    let mut vs = vec![];
    for _ in 0..2 {
        let mut perm: Vec<usize> = (1..=ng).collect();
        perm.shuffle(&mut r);
        let sign: Vec<isize> = (0..ng).map(|_| if r.gen_bool(0.5) { 1 } else { -1 }).collect();
        let rn: Vec<FreeWord> = rels.iter().map(|w| FreeWord::new(letters(w).iter().map(|&x| { let g = x.unsigned_abs() as usize; (perm[g - 1] as isize) * sign[g - 1] * x.signum() }))).collect();
        let mut w = json!({"perm": perm, "sign": sign, "rels": rn.iter().map(letters).collect::<Vec<_>>()});
        match catch(|| { let mut c = vec![0usize; k]; for t in coset_tables(ng, &rn, k) { c[t.len() - 1] += 1; } c }) {
            Ok(c) => { w["counts"] = json!(c); }
            Err(m) => { w["panic"] = json!(m); }
        }
        vs.push(w);
    }
    e["variants"] = json!(vs);
    e
}

pub fn drive_c12(args: &[String]) {
    let out = arg(args, "--out").unwrap();
    let maxsym = arg_usize(args, "--maxsym", 2);
    let thorough = std::env::var("DSV_THOROUGH").is_ok();
    let mut sink = Sink::create(&out);
    let mut all: Vec<Grp> = infinite_corpus();
    all.extend(finite_corpus());
    for gr in &all {
        let kc = kcheck(gr.ng, thorough);
        // the enumeration bound may exceed what the brute-force count can confirm; the structural clauses
        // (valid, transitive, pairwise inequivalent) are checked for all tables
        let k = if gr.order > 0 { kc.max(gr.order.min(8)) } else { kc + if gr.ng <= 2 { 1 } else { 0 } };
        sink.emit(lowindex_event(&gr.name, gr.ng, &words(&gr.rels), k, kc));
    }
    // orbifold groups of all small 2-D and 3-D symbols
    let mut rng = rng(12);
    let mut syms: Vec<PartialDSym> = generated_2d(maxsym + 1);
    syms.extend(sets_with_branching(3, maxsym, &[1, 2, 3], 6, &mut rng));
    for s in syms {
        let fg = match catch(|| fundamental_group(&s)) { Ok(f) => f, Err(_) => continue };
        let ng = fg.nr_generators();
        if ng > 4 || fg.relators.iter().any(|w| w.len() > 30) { continue; }
        let kc = kcheck(ng, thorough).min(if ng >= 3 { 3 } else { 4 });
        sink.emit(lowindex_event(&format!("orbifold group of {}", s), ng, &fg.relators, kc, kc));
    }
    // triangle groups <x, y | x^p, y^q, (xy)^r> for every ORDERED triple of exponents 2..6, enumerated to index 6 (class counts
    // confirmed to index 4, structural clauses and renamed presentations to index 6): deductions that close relator
    // cycles inconsistently depend on the order of the generators
    if arg_usize(args, "--triangles", 1) > 0 {
        for p in 2..=6usize { for q in 2..=6usize { for r in 2..=6usize {
            let rels = vec![FreeWord::new(vec![1isize; p]), FreeWord::new(vec![2isize; q]), FreeWord::new([1isize, 2].repeat(r))];
            sink.emit(lowindex_event(&format!("triangle({p},{q},{r})"), 2, &rels, 6, 4));
        } } }
    }
    // deep runs: orbifold groups with >= 3 generators of larger 2-D symbols enumerated to index 6 (thorough 7): every table
    // must still be a valid action (structural clauses; the class count is confirmed only up to kcheck)
    let deep_k = arg_usize(args, "--deep-k", 6);
    let deep_n = arg_usize(args, "--deep", 40);
    let mut pool: Vec<PartialDSym> = generated_2d(6).into_iter().filter(|s| s.size() >= 4).collect();
    pool.extend(sets_with_branching(2, 4, &[2, 3, 4], 3, &mut rng));
    pool.shuffle(&mut rng);
    let mut done = 0;
    for s in pool {
        if done >= deep_n { break; }
        let fg = match catch(|| fundamental_group(&s)) { Ok(f) => f, Err(_) => continue };
        let ng = fg.nr_generators();
        if ng < 3 || ng > 5 || fg.relators.iter().any(|w| w.len() > 40) { continue; }
        done += 1;
        sink.emit(lowindex_event(&format!("deep: orbifold group of {}", s), ng, &fg.relators, deep_k, if ng == 3 { 3 } else { 2 }));
    }
    sink.flush();
    println!("{}", json!({"events": sink.n}));
}

fn rand_words(ng: usize, n: usize, maxlen: usize, rng: &mut StdRng) -> Vec<Vec<isize>> {
    (0..n).map(|_| { let l = rng.gen_range(0..=maxlen); letters(&FreeWord::new((0..l).map(|_| { let g = rng.gen_range(1..=ng as isize); if rng.gen_bool(0.5) { g } else { -g } }))) }).collect()
}

fn core_event(t: &CosetTable, rels: &Vec<Vec<isize>>, rng: &mut StdRng) -> Value {
    let mut e = json!({"ev": "core", "in": table_json(t)});
    pending(&e);
    let mut ws = rand_words(t.nr_gens(), 14, 8, rng);
    ws.extend(rels.iter().cloned());
    e["words"] = json!(ws);
    match catch(|| core_table(t)) { Ok(o) => e["out"] = table_json(&o), Err(m) => e["panic"] = json!(m) }
    e
}

fn inter_event(a: &CosetTable, b: &CosetTable, rels: &Vec<Vec<isize>>, rng: &mut StdRng) -> Value {
    let mut e = json!({"ev": "intersection", "a": table_json(a), "b": table_json(b)});
    pending(&e);
    let mut ws = rand_words(a.nr_gens(), 14, 8, rng);
    ws.extend(rels.iter().cloned());
    e["words"] = json!(ws);
    match catch(|| intersection_table(a, b)) { Ok(o) => e["out"] = table_json(&o), Err(m) => e["panic"] = json!(m) }
    e
}

pub fn drive_c13(args: &[String]) {
    let out = arg(args, "--out").unwrap();
    let maxsym = arg_usize(args, "--maxsym", 3);
    let per_group = arg_usize(args, "--tables", 6);
    let mut sink = Sink::create(&out);
    let mut rng = rng(13);
    // (a) finite groups with permutation models
    for gr in finite_corpus() {
        if gr.name == "trivial" { continue; }
        let grp = gr.name.replace(' ', "_");
        sink.emit(json!({"ev": "group", "grp": grp, "name": gr.name, "ng": gr.ng, "rels": gr.rels, "order": gr.order, "act": gr.act}));
        let rels = words(&gr.rels);
        // tables: all low-index tables up to 8 rows plus coset tables of a few random subgroups
        let mut tables: Vec<CosetTable> = catch(|| coset_tables(gr.ng, &rels, 8.min(gr.order)).collect::<Vec<_>>()).unwrap_or_default();
        let sw = short_words(gr.ng, 2);
        for _ in 0..3 { let w = sw.choose(&mut rng).unwrap().clone(); if let Ok(t) = catch(|| coset_table(gr.ng, &rels, &words(&[w]))) { if t.len() <= 24 { tables.push(t); } } }
        tables.shuffle(&mut rng);
        tables.truncate(per_group);
        for t in &tables {
            let bases: Vec<usize> = if t.len() <= 4 { (0..t.len()).collect() } else { vec![0, rng.gen_range(1..t.len()), t.len() - 1] };
            for base in bases {
                let mut e = json!({"ev": "stabilizer", "grp": grp, "table": table_json(t), "base": base});
                pending(&e);
                match catch(|| {
                    let (sg, sr) = stabilizer(base, rels.iter().cloned(), t);
                    let st = if sg.is_empty() { None } else { Some(coset_table(sg.len(), &sr, &vec![])) };
                    (sg, sr, st)
                }) {
                    Ok((sg, sr, st)) => {
                        e["sgens"] = json!(sg.iter().map(letters).collect::<Vec<_>>());
                        e["srels"] = json!(sr.iter().map(letters).collect::<Vec<_>>());
                        e["stab_table"] = st.map(|t| table_json(&t)).unwrap_or(json!({}));
                    }
                    Err(m) => { e["panic"] = json!(m); }
                }
                e["grp"] = json!(grp);
                sink.emit(e);
            }
            let mut ce = core_event(t, &gr.rels, &mut rng); ce["grp"] = json!(grp); sink.emit(ce);
        }
        for _ in 0..per_group.min(tables.len() * tables.len()) {
            let a = tables.choose(&mut rng).unwrap(); let b = tables.choose(&mut rng).unwrap();
            if a.len() * b.len() <= 144 { let mut ie = inter_event(a, b, &gr.rels, &mut rng); ie["grp"] = json!(grp); sink.emit(ie); }
        }
    }
    // (b) infinite groups: orbifold groups of euclidean / hyperbolic symbols, low-index tables, all base rows
    let mut k = 0;
    for s in generated_2d(maxsym).into_iter().chain(sets_with_branching(3, 2, &[1, 2, 3], 3, &mut rng)) {
        if s.dim() == 2 && is_spherical(&s) { continue; }
        let fg = match catch(|| fundamental_group(&s)) { Ok(f) => f, Err(_) => continue };
        let ng = fg.nr_generators();
        if ng == 0 || ng > 4 { continue; }
        let tables: Vec<CosetTable> = catch(|| coset_tables(ng, &fg.relators, 3).collect::<Vec<_>>()).unwrap_or_default();
        k += 1;
        let grp = format!("inf{k}");
        for t in tables.iter().take(5) {
            for base in 0..t.len() {
                let mut e = json!({"ev": "stab_inf", "grp": grp, "sym": s.to_string(), "ng": ng,
                                   "rels": fg.relators.iter().map(letters).collect::<Vec<_>>(), "table": table_json(t), "base": base});
                pending(&e);
                match catch(|| {
                    let (sg, sr) = stabilizer(base, fg.relators.iter().cloned(), t);
                    let cov = cover_for_table(&s, t, &fg.edge_to_word);
                    let cg = fundamental_group(&cov);
                    (sg, sr, cg)
                }) {
                    Ok((sg, sr, cg)) => {
                        if sg.len() > 8 || cg.nr_generators() > 8 { continue; }
                        e["sgens"] = json!(sg.iter().map(letters).collect::<Vec<_>>());
                        e["srels"] = json!(sr.iter().map(letters).collect::<Vec<_>>());
                        e["cover_ng"] = json!(cg.nr_generators());
                        e["cover_rels"] = json!(cg.relators.iter().map(letters).collect::<Vec<_>>());
                    }
                    Err(m) => { e["panic"] = json!(m); }
                }
                sink.emit(e);
            }
            if t.len() > 1 { let mut ce = core_event(t, &fg.relators.iter().map(letters).collect(), &mut rng); ce["grp"] = json!(grp); sink.emit(ce); }
        }
        if tables.len() >= 2 {
            let a = tables.choose(&mut rng).unwrap(); let b = tables.choose(&mut rng).unwrap();
            let mut ie = inter_event(a, b, &fg.relators.iter().map(letters).collect(), &mut rng); ie["grp"] = json!(grp); sink.emit(ie);
        }
    }
    // (d) any finitely presented group: free groups, free products, generators that occur in no relator, one-relator
    // groups.  Every low-index table, every base row; the abelianisation of the stabiliser presentation is compared with
    // the first homology of the covering complex (Trace_C13!CoverH1)
    let anyk = arg_usize(args, "--anyk", 3);
    for gr in infinite_corpus() {
        let rels = words(&gr.rels);
        let tables: Vec<CosetTable> = catch(|| coset_tables(gr.ng, &rels, anyk).collect::<Vec<_>>()).unwrap_or_default();
        let grp = format!("any_{}", gr.name.replace(' ', "_"));
        let mut tables = tables;
        if tables.len() > 3 * per_group { let first = tables[0].clone(); tables.shuffle(&mut rng); tables.truncate(3 * per_group); tables.push(first); }
        for t in &tables {
            if t.len() * gr.ng > 12 { continue; }
            for base in 0..t.len() {
                let mut e = json!({"ev": "stab_any", "grp": grp, "name": gr.name, "ng": gr.ng, "rels": gr.rels, "table": table_json(t), "base": base});
                pending(&e);
                match catch(|| stabilizer(base, rels.iter().cloned(), t)) {
                    Ok((sg, sr)) => {
                        e["sgens"] = json!(sg.iter().map(letters).collect::<Vec<_>>());
                        e["srels"] = json!(sr.iter().map(letters).collect::<Vec<_>>());
                    }
                    Err(m) => { e["panic"] = json!(m); }
                }
                sink.emit(e);
            }
        }
    }
    // (c) large tables (more than 256 rows: row numbers that do not fit a byte): regular tables of cyclic and dihedral groups.
    // A wrong core computation can need gigabytes and minutes, so each case runs in a sacrificial child process with a
    // memory and a time limit; a child that does not survive is recorded as a failed call (like a panic)
    for (ng, rels) in [(1usize, vec![vec![1isize; 257]]), (1, vec![vec![1; 300]]), (2, vec![vec![1, 1], vec![2, 2], [1isize, 2].repeat(140)])] {
        let spec = json!({"ng": ng, "rels": rels, "seed": rng.gen::<u32>()});
        pending(&json!({"ev": "core", "large": spec}));
        let exe = std::env::current_exe().unwrap();
        let mut child = std::process::Command::new("sh")
            .args(["-c", &format!("ulimit -v 6000000; exec timeout 120 {} C13 core-one", exe.display())])
            .stdin(std::process::Stdio::piped()).stdout(std::process::Stdio::piped()).stderr(std::process::Stdio::null())
            .spawn().expect("spawn child");
        { use std::io::Write; child.stdin.take().unwrap().write_all(spec.to_string().as_bytes()).unwrap(); }
        let out = child.wait_with_output().unwrap();
        let ev = if out.status.success() { serde_json::from_slice::<Value>(&out.stdout).ok() } else { None };
        match ev {
            Some(v) => sink.emit(v),
            None => {
                let t = catch(|| coset_table(ng, &words(&rels), &vec![])).ok();
                sink.emit(json!({"ev": "core", "grp": format!("large{}", rels[rels.len() - 1].len()), "in": t.map(|t| table_json(&t)).unwrap_or(json!(null)), "words": [],
                                 "panic": format!("core_table on a table with more than 256 rows did not survive 6 GB / 120 s ({:?})", out.status)}));
            }
        }
    }
    sink.flush();
    println!("{}", json!({"events": sink.n}));
}

/// child mode of (c): one large case read from stdin, the core event printed to stdout
pub fn core_one(_args: &[String]) {
    use std::io::Read;
    let mut s = String::new();
    std::io::stdin().read_to_string(&mut s).unwrap();
    let j: Value = serde_json::from_str(&s).unwrap();
    let ng = j["ng"].as_u64().unwrap() as usize;
    let rels: Vec<Vec<isize>> = serde_json::from_value(j["rels"].clone()).unwrap();
    let mut rng = StdRng::seed_from_u64(j["seed"].as_u64().unwrap());
    let t = coset_table(ng, &words(&rels), &vec![]);
    let mut ce = core_event(&t, &rels, &mut rng);
    ce["grp"] = json!(format!("large{}", t.len()));
    // a wrong result can be enormous: keep the row count, drop the table (an empty table is never accepted)
    if ce["out"]["img"].as_array().map(|a| a.len()).unwrap_or(0) > 4000 { ce["out_rows"] = json!(ce["out"]["img"].as_array().unwrap().len()); ce["out"]["img"] = json!([]); }
    println!("{}", ce);
}

// ------------------------------------------------------------------ hooked runs (cfg rust_dsymbols_verif)

#[cfg(rust_dsymbols_verif)]
pub fn drive_hooked(args: &[String]) {
    let out = arg(args, "--out").unwrap();
    let nsyms = arg_usize(args, "--syms", 12);
    let k = arg_usize(args, "--k", 5);
    let cap = arg_usize(args, "--cap", 600);
    let mut sink = Sink::create(&out);
    let mut rng = rng(121);
    let mut pres: Vec<(String, usize, Vec<Vec<isize>>)> = vec![];
    for gr in infinite_corpus().into_iter().chain(finite_corpus()) { if gr.ng >= 1 { pres.push((gr.name.clone(), gr.ng, gr.rels.clone())); } }
    let mut pool: Vec<PartialDSym> = generated_2d(6).into_iter().filter(|s| s.size() >= 2).collect();
    pool.extend(sets_with_branching(2, 4, &[2, 3, 4, 6], 3, &mut rng));
    pool.extend(sets_with_branching(3, 2, &[1, 2, 3], 3, &mut rng));
    pool.shuffle(&mut rng);
    let mut n = 0;
    for s in pool {
        if n >= nsyms { break; }
        if let Ok(fg) = catch(|| fundamental_group(&s)) {
            let ng = fg.nr_generators();
            if ng >= 2 && ng <= 5 && fg.relators.iter().all(|w| w.len() <= 40) { n += 1; pres.push((format!("orbifold group of {}", s), ng, fg.relators.iter().map(letters).collect())); }
        }
    }
    let mut run = 0;
    for (name, ng, rels) in pres {
        run += 1;
        let tag = format!("p{run}");
        sink.emit(json!({"ev": "header", "run": tag, "name": name, "ng": ng, "rels": rels, "k": k}));
        // at most 300 000 calls are kept per run (deep enumerations make hundreds of millions)
        rust_dsymbols::verif::set_limit(300_000);
        rust_dsymbols::verif::record(true); let _ = rust_dsymbols::verif::take();
        let r = catch(|| coset_tables(ng, &words(&rels), k).count());
        rust_dsymbols::verif::record(false); let evs = rust_dsymbols::verif::take();
        // large trees: a seeded sample of the calls (every call is judged on its own)
        let total = evs.len();
        for e in evs {
            if total > cap && !rng.gen_bool(cap as f64 / total as f64) { continue; }
            let mut v: Value = serde_json::from_str(&e).expect("hook event");
            v["some"] = json!(!v["out"].is_null());
            if v["out"].is_null() { v["out"] = json!([]); }
            v["run"] = json!(tag);
            sink.emit(v);
        }
        if let Err(m) = r { sink.emit(json!({"ev": "derive", "run": tag, "panic": m})); }
    }
    sink.flush();
    println!("{}", json!({"events": sink.n, "runs": run}));
}

#[cfg(not(rust_dsymbols_verif))]
pub fn drive_hooked(_args: &[String]) {
    println!("{}", json!({"events": 0, "runs": 0, "hooks": "not compiled in"}));
}

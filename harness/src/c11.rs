//! C11 — coset enumeration.
use crate::c10::letters;
use crate::common::*;
use crate::corpus::*;
use crate::groups::*;
use rand::prelude::*;
use rust_dsymbols::delaney2d::is_spherical;
use rust_dsymbols::dsets::*;
use rust_dsymbols::fpgroups::cosets::*;
use rust_dsymbols::fpgroups::free_words::FreeWord;
use rust_dsymbols::fundamental_group::fundamental_group;
use serde_json::{json, Value};

fn table_event(grp: &str, ng: usize, rels: &Vec<FreeWord>, subs: &Vec<Vec<isize>>) -> Value {
    let mut e = json!({"ev": "coset_table", "grp": grp, "subs": subs});
    pending(&json!({"ev": "coset_table", "grp": grp, "ng": ng, "rels": rels.iter().map(letters).collect::<Vec<_>>(), "subs": subs}));
    let sw = words(subs);
    match catch(|| { let t = coset_table(ng, rels, &sw); let r = coset_representative(&t); (t, r) }) {
        Ok((t, reps)) => {
            e["table"] = table_json(&t);
            e["reps"] = json!((0..t.len()).map(|r| reps.get(&r).map(letters).unwrap_or(vec![0])).collect::<Vec<_>>());
        }
        Err(m) => { e["panic"] = json!(m); }
    }
    e
}

fn subgroup_choices(ng: usize, rng: &mut StdRng, n_single: usize, n_pairs: usize, maxlen: usize) -> Vec<Vec<Vec<isize>>> {
    let ws = short_words(ng, maxlen);
    let mut out: Vec<Vec<Vec<isize>>> = vec![vec![]];                  // the trivial subgroup
    out.push((1..=ng as isize).map(|g| vec![g]).collect());            // the whole group
    let mut singles: Vec<Vec<isize>> = ws.iter().filter(|w| !w.is_empty()).cloned().collect();
    singles.shuffle(rng);
    for w in singles.iter().take(n_single) { out.push(vec![w.clone()]); }
    for _ in 0..n_pairs {
        let a = singles.choose(rng).unwrap().clone();
        let b = singles.choose(rng).unwrap().clone();
        out.push(vec![a, b]);
    }
    // a generator given as the empty word, and a repeated generator, must not matter
    out.push(vec![vec![], singles[0].clone()]);
    out
}

pub fn drive(args: &[String]) {
    let out = arg(args, "--out").unwrap();
    let n_single = arg_usize(args, "--singles", 8);
    let n_pairs = arg_usize(args, "--pairs", 6);
    let maxsym = arg_usize(args, "--maxsym", 3);
    let mut sink = Sink::create(&out);
    let mut rng = rng(11);
    for gr in finite_corpus() {
        let grp = gr.name.replace(' ', "_");
        sink.emit(json!({"ev": "group", "grp": grp, "name": gr.name, "ng": gr.ng, "rels": gr.rels, "order": gr.order, "act": gr.act}));
        let rels = words(&gr.rels);
        let maxlen = if gr.order <= 12 { 3 } else { 2 };
        for subs in subgroup_choices(gr.ng, &mut rng, n_single, n_pairs, maxlen) {
            if gr.name == "trivial" && subs.len() > 1 { continue; }
            sink.emit(table_event(&grp, gr.ng, &rels, &subs));
        }
    }
    // orbifold groups of spherical 2-D symbols: order 4/K, model = the regular table (validated by the spec)
    let mut k = 0;
    for s in generated_2d(maxsym) {
        if !is_spherical(&s) { continue; }
        let fg = match catch(|| fundamental_group(&s)) { Ok(f) => f, Err(_) => continue };
        let ng = fg.nr_generators();
        if ng == 0 || ng > 3 { continue; }
        let reg = match catch(|| coset_table(ng, &fg.relators, &vec![])) { Ok(t) => t, Err(m) => { sink.emit(json!({"ev": "group", "grp": format!("orb{k}"), "panic": m})); continue; } };
        if reg.len() > 48 { continue; }
        k += 1;
        let grp = format!("orb{k}");
        sink.emit(json!({"ev": "group", "grp": grp, "name": format!("orbifold group of {}", s), "sym": dsym_json(&s), "ng": ng,
                         "rels": fg.relators.iter().map(letters).collect::<Vec<_>>(), "act": table_as_act(&reg)}));
        for subs in subgroup_choices(ng, &mut rng, 3, 2, 2) {
            sink.emit(table_event(&grp, ng, &fg.relators, &subs));
        }
    }
    sink.flush();
    println!("{}", json!({"events": sink.n}));
}

// ------------------------------------------------------------------ hooked runs (cfg rust_dsymbols_verif)

type Perm = Vec<usize>; // 0-based images

fn compose(p: &Perm, q: &Perm) -> Perm { p.iter().map(|&x| q[x]).collect() }   // first p then q
fn invert(p: &Perm) -> Perm { let mut r = vec![0; p.len()]; for (i, &x) in p.iter().enumerate() { r[x] = i; } r }
fn word_perm(act: &Vec<Perm>, w: &[isize]) -> Perm {
    let n = act[0].len();
    let mut r: Perm = (0..n).collect();
    for &g in w { let p = if g > 0 { act[(g - 1) as usize].clone() } else { invert(&act[(-g - 1) as usize]) }; r = compose(&r, &p); }
    r
}
fn closure(gens: &Vec<Perm>, n: usize) -> Vec<Perm> {
    let id: Perm = (0..n).collect();
    let mut seen = std::collections::BTreeSet::from([id.clone()]);
    let mut todo = vec![id];
    while let Some(x) = todo.pop() { for g in gens { let y = compose(&x, g); if seen.insert(y.clone()) { todo.push(y); } } }
    seen.into_iter().collect()
}

/// the action of G (given by its permutation model) on the right cosets of H = <subs>, base coset first;
/// returned as rows of images under 1..k,-1..-k (1-based coset numbers).  Harness data: the spec verifies it.
fn coset_action(act1: &Vec<Vec<usize>>, ng: usize, subs: &Vec<Vec<isize>>) -> Vec<Vec<usize>> {
    let act: Vec<Perm> = act1.iter().map(|p| p.iter().map(|&x| x - 1).collect()).collect();
    let n = act[0].len();
    let h = closure(&subs.iter().map(|w| word_perm(&act, w)).collect(), n);
    let coset_of = |x: &Perm| -> Vec<Perm> { let mut c: Vec<Perm> = h.iter().map(|y| compose(y, x)).collect(); c.sort(); c };   // H x
    let id: Perm = (0..n).collect();
    let mut cosets: Vec<Vec<Perm>> = vec![coset_of(&id)];
    let mut reps: Vec<Perm> = vec![id];
    let mut rows: Vec<Vec<usize>> = vec![];
    let gens: Vec<isize> = (1..=ng as isize).chain((1..=ng as isize).map(|g| -g)).collect();
    let mut k = 0;
    while k < cosets.len() {
        let mut row = vec![];
        for &g in &gens {
            let x = compose(&reps[k], &word_perm(&act, &[g]));
            let c = coset_of(&x);
            let pos = match cosets.iter().position(|d| *d == c) { Some(p) => p, None => { cosets.push(c); reps.push(x); cosets.len() - 1 } };
            row.push(pos + 1);
        }
        rows.push(row);
        k += 1;
    }
    rows
}

#[cfg(rust_dsymbols_verif)]
pub fn drive_hooked(args: &[String]) {
    let out = arg(args, "--out").unwrap();
    let per_group = arg_usize(args, "--subgroups", 4);
    let maxorder = arg_usize(args, "--maxorder", 24);
    let mut sink = Sink::create(&out);
    let mut rng = rng(111);
    let mut run = 0;
    for gr in finite_corpus() {
        if gr.name == "trivial" || gr.order > maxorder { continue; }
        let rels = words(&gr.rels);
        let mut choices = subgroup_choices(gr.ng, &mut rng, per_group, per_group / 2, 2);
        choices.retain(|s| s.iter().all(|w| !w.is_empty()));
        for subs in choices {
            let act = coset_action(&gr.act, gr.ng, &subs);
            run += 1;
            let tag = format!("r{run}");
            sink.emit(json!({"ev": "header", "run": tag, "name": gr.name, "ng": gr.ng, "rels": gr.rels, "subs": subs, "gact": gr.act, "order": gr.order,
                             "truen": act.len(), "act": act}));
            rust_dsymbols::verif::record(true); let _ = rust_dsymbols::verif::take();
            let sw = words(&subs);
            let r = catch(|| coset_table(gr.ng, &rels, &sw));
            rust_dsymbols::verif::record(false); let evs = rust_dsymbols::verif::take();
            for e in evs {
                let mut v: Value = serde_json::from_str(&e).expect("hook event");
                v["run"] = json!(tag);
                sink.emit(v);
            }
            if let Err(m) = r { sink.emit(json!({"ev": "return", "run": tag, "panic": m})); }
        }
    }
    sink.flush();
    println!("{}", json!({"events": sink.n, "runs": run}));
}

#[cfg(not(rust_dsymbols_verif))]
pub fn drive_hooked(_args: &[String]) {
    println!("{}", json!({"events": 0, "runs": 0, "hooks": "not compiled in"}));
}

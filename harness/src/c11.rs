//! C11 — coset enumeration.
use crate::c10::letters;
use crate::common::*;
use crate::corpus::*;
use crate::groups::*;
use rand::prelude::*;
use rust_dsymbols::delaney2d::is_spherical;
use rust_dsymbols::dsets::*;
use rust_dsymbols::fpgroups::cosets::*;
use rust_dsymbols::fpgroups::free_words::FreeWord;
use rust_dsymbols::fundamental_group::fundamental_group;
use serde_json::{json, Value};

fn table_event(grp: &str, ng: usize, rels: &Vec<FreeWord>, subs: &Vec<Vec<isize>>) -> Value {
    let mut e = json!({"ev": "coset_table", "grp": grp, "subs": subs});
    pending(&json!({"ev": "coset_table", "grp": grp, "ng": ng, "rels": rels.iter().map(letters).collect::<Vec<_>>(), "subs": subs}));
    let sw = words(subs);
    match catch(|| { let t = coset_table(ng, rels, &sw); let r = coset_representative(&t); (t, r) }) {
        Ok((t, reps)) => {
            e["table"] = table_json(&t);
            e["reps"] = json!((0..t.len()).map(|r| reps.get(&r).map(letters).unwrap_or(vec![0])).collect::<Vec<_>>());
        }
        Err(m) => { e["panic"] = json!(m); }
    }
    e
}

fn subgroup_choices(ng: usize, rng: &mut StdRng, n_single: usize, n_pairs: usize, maxlen: usize) -> Vec<Vec<Vec<isize>>> {
    let ws = short_words(ng, maxlen);
    let mut out: Vec<Vec<Vec<isize>>> = vec![vec![]];                  // the trivial subgroup
    out.push((1..=ng as isize).map(|g| vec![g]).collect());            // the whole group
    let mut singles: Vec<Vec<isize>> = ws.iter().filter(|w| !w.is_empty()).cloned().collect();
    singles.shuffle(rng);
    for w in singles.iter().take(n_single) { out.push(vec![w.clone()]); }
    for _ in 0..n_pairs {
        let a = singles.choose(rng).unwrap().clone();
        let b = singles.choose(rng).unwrap().clone();
        out.push(vec![a, b]);
    }
    // a generator given as the empty word, and a repeated generator, must not matter
    out.push(vec![vec![], singles[0].clone()]);
    out
}

pub fn drive(args: &[String]) {
    let out = arg(args, "--out").unwrap();
    let n_single = arg_usize(args, "--singles", 8);
    let n_pairs = arg_usize(args, "--pairs", 6);
    let maxsym = arg_usize(args, "--maxsym", 3);
    let mut sink = Sink::create(&out);
    let mut rng = rng(11);
    for gr in finite_corpus() {
        let grp = gr.name.replace(' ', "_");
        sink.emit(json!({"ev": "group", "grp": grp, "name": gr.name, "ng": gr.ng, "rels": gr.rels, "order": gr.order, "act": gr.act}));
        let rels = words(&gr.rels);
        let maxlen = if gr.order <= 12 { 3 } else { 2 };
        for subs in subgroup_choices(gr.ng, &mut rng, n_single, n_pairs, maxlen) {
            if gr.name == "trivial" && subs.len() > 1 { continue; }
            sink.emit(table_event(&grp, gr.ng, &rels, &subs));
        }
    }
    // orbifold groups of spherical 2-D symbols: order 4/K, model = the regular table (validated by the spec)
    let mut k = 0;
    for s in generated_2d(maxsym) {
        if !is_spherical(&s) { continue; }
        let fg = match catch(|| fundamental_group(&s)) { Ok(f) => f, Err(_) => continue };
        let ng = fg.nr_generators();
        if ng == 0 || ng > 3 { continue; }
        let reg = match catch(|| coset_table(ng, &fg.relators, &vec![])) { Ok(t) => t, Err(m) => { sink.emit(json!({"ev": "group", "grp": format!("orb{k}"), "panic": m})); continue; } };
        if reg.len() > 48 { continue; }
        k += 1;
        let grp = format!("orb{k}");
        sink.emit(json!({"ev": "group", "grp": grp, "name": format!("orbifold group of {}", s), "sym": dsym_json(&s), "ng": ng,
                         "rels": fg.relators.iter().map(letters).collect::<Vec<_>>(), "act": table_as_act(&reg)}));
        for subs in subgroup_choices(ng, &mut rng, 3, 2, 2) {
            sink.emit(table_event(&grp, ng, &fg.relators, &subs));
        }
    }
    sink.flush();
    println!("{}", json!({"events": sink.n}));
}

//! C08 — 2-D curvature, orbifold symbol, geometry class.
use crate::common::*;
use crate::corpus::*;
use rand::prelude::*;
use rust_dsymbols::delaney2d::*;
use rust_dsymbols::derived::*;
use rust_dsymbols::dsets::*;
use rust_dsymbols::dsyms::*;
use serde_json::{json, Value};

/// Conway symbol -> {"cones":[..],"bnds":[[..]..],"handles":h,"crosscaps":x}; pure tokenisation
pub fn parse_conway(s: &str) -> Option<Value> {
    let mut cones: Vec<u64> = vec![];
    let mut bnds: Vec<Vec<u64>> = vec![];
    let (mut handles, mut crosscaps) = (0u64, 0u64);
    let mut cur: Option<Vec<u64>> = None;
    let cs: Vec<char> = s.chars().collect();
    let mut k = 0;
    if s == "1" { return Some(json!({"cones": cones, "bnds": bnds, "handles": 0, "crosscaps": 0})); }
    if s == "1*" { return Some(json!({"cones": cones, "bnds": [Vec::<u64>::new()], "handles": 0, "crosscaps": 0})); }
    if s == "1x" { return Some(json!({"cones": cones, "bnds": bnds, "handles": 0, "crosscaps": 1})); }
    while k < cs.len() {
        let c = cs[k];
        match c {
            '*' => { if let Some(b) = cur.take() { bnds.push(b); } cur = Some(vec![]); k += 1; }
            'o' => { if let Some(b) = cur.take() { bnds.push(b); } handles += 1; k += 1; }
            'x' => { if let Some(b) = cur.take() { bnds.push(b); } crosscaps += 1; k += 1; }
            '(' => { let mut n = 0u64; k += 1; while k < cs.len() && cs[k] != ')' { n = n * 10 + cs[k].to_digit(10)? as u64; k += 1; } k += 1;
                     if let Some(b) = cur.as_mut() { b.push(n); } else { cones.push(n); } }
            d if d.is_ascii_digit() => { let n = d.to_digit(10)? as u64; k += 1; if let Some(b) = cur.as_mut() { b.push(n); } else { cones.push(n); } }
            _ => return None,
        }
    }
    if let Some(b) = cur.take() { bnds.push(b); }
    Some(json!({"cones": cones, "bnds": bnds, "handles": handles, "crosscaps": crosscaps}))
}

fn geom(s: &PartialDSym) -> Value {
    let mut g = json!({"sym": dsym_json(s)});
    pending(&g);
    with_decoy(s, |d| { let _ = (curvature(d), orbifold_symbol(d), is_euclidean(d), is_hyperbolic(d), is_spherical(d)); });
    match catch(|| (curvature(s), orbifold_symbol(s), is_euclidean(s), is_hyperbolic(s), is_spherical(s))) {
        Ok((k, sy, e, h, sp)) => {
            g["curv"] = json!([*k.numer(), *k.denom()]);
            g["symbol"] = json!(sy);
            match parse_conway(&sy) { Some(o) => g["orb"] = o, None => g["panic"] = json!(format!("unreadable orbifold symbol {sy}")) }
            g["euc"] = json!(e); g["hyp"] = json!(h); g["sph"] = json!(sp);
        }
        Err(m) => { g["panic"] = json!(m); }
    }
    g
}

pub fn drive(args: &[String]) {
    let out = arg(args, "--out").unwrap();
    let files = arg(args, "--universe").unwrap_or_default();
    let maxgen = arg_usize(args, "--maxgen", 5);
    let maxset = arg_usize(args, "--maxset", 4);
    let mut sink = Sink::create(&out);
    let mut rng = rng(8);
    let mut corpus: Vec<PartialDSym> = syms_from_files(&files).into_iter().filter(|s| s.is_connected() && s.dim() == 2).collect();
    corpus.extend(generated_2d_reach(maxgen, 8, 150, &mut rng).into_iter().filter(|s| s.size() >= 4));
    // all connected D-sets with every branching assignment up to 4 (capped per D-set)
    corpus.extend(sets_with_branching(2, maxset, &[1, 2, 3, 4], 24, &mut rng).into_iter().filter(|s| s.size() >= 3));
    corpus.extend(sets_with_branching(2, maxset, &[1, 5, 7, 12], 4, &mut rng));
    // every branching value from 8 to 16 on small D-sets (the orbifold symbol brackets orders of two digits: the boundary
    // between the two notations, 9 | (10), must be hit exactly)
    corpus.extend(sets_with_branching(2, 3, &[8, 9, 10, 11, 12, 13, 16], 6, &mut rng));
    corpus.extend(sets_with_branching(2, 2, &[1, 9, 10, 11], 1000, &mut rng));
    for s in &corpus {
        let mut e = json!({"ev": "geom2d", "base": geom(s)});
        let mut vs = vec![];
        let n = s.size();
        let mut add = |how: &str, t: &PartialDSym, sheets: usize| { let mut g = geom(t); g["how"] = json!(how); g["sheets"] = json!(sheets); vs.push(g); };
        if n >= 2 { add("renumber", &renumber(s, &rand_perm(n, &mut rng)), 1); }
        add("dual", &dual(s), 1);
        if n <= 6 && rng.gen_bool(if n <= 3 { 0.8 } else { 0.25 }) {
            let k = if n <= 2 { 3 } else { 2 };
            let mut cs = small_covers(s, k); cs.shuffle(&mut rng);
            for c in cs.into_iter().take(2) { let sheets = c.size() / n; add("cover", &c, sheets); }
        }
        if rng.gen_bool(0.3) { let oc = oriented_cover(s); if oc.size() > n { add("cover", &oc, 2); } }
        e["variants"] = json!(vs);
        sink.emit(e);
    }
    sink.flush();
    println!("{}", json!({"events": sink.n}));
}

//! C15 — toroidal / pseudo-toroidal covers; C16 — simplification; C17 — euclidicity verdicts.
use crate::c10::letters;
use crate::common::*;
use crate::corpus::*;
use rand::prelude::*;
use rust_dsymbols::covers::{covers, finite_universal_cover, subgroup_cover};
use rust_dsymbols::delaney2d;
use rust_dsymbols::delaney3d::pseudo_toroidal_cover;
use rust_dsymbols::derived::*;
use rust_dsymbols::dsets::*;
use rust_dsymbols::dsyms::*;
use rust_dsymbols::euclidicity::{is_euclidean, Euclidean};
use rust_dsymbols::fpgroups::free_words::FreeWord;
use rust_dsymbols::fundamental_group::fundamental_group;
use rust_dsymbols::generators::dset_generators::DSets;
use rust_dsymbols::simplify::simplify;
use serde_json::{json, Value};

pub const CORPUS: [&str; 17] = ["<1.4:1 3:1,1,1,1:4,3,4>","<2.1:2 3:1 2,1 2,1 2,2:3 3,3 4,4>","<513.5:2 3:2,1 2,1 2,2:4,2 4,6>","<513.8:2 3:2,1 2,1 2,2:6,2 3,6>","<3.3:3 3:1 2 3,1 2 3,1 3,2 3:3 3 4,4 4,3>","<167.3:3 3:1 2 3,1 3,2 3,1 2 3:3 4,3,4 6>","<184.4:3 3:1 2 3,1 3,2 3,1 3:4 6,3,3>","<23.14:4 3:1 2 3 4,1 2 4,1 3 4,2 3 4:3 3 8,4 3,3 4>","<71.3:4 3:1 2 3 4,1 2 4,1 3 4,2 4:3 3 6,3 3,4>","<514.7:4 3:2 4,1 2 3 4,1 2 3 4,3 4:4 4,2 4 4 3,4 4>","<553.3:4 3:2 4,1 2 3 4,3 4,2 4:4 6,2 6,4>","<45.2:5 3:1 2 3 5,1 2 4 5,1 3 4 5,2 3 4 5:3 3 3,3 3 3,6 4 4>","<45.7:5 3:1 2 3 5,1 2 4 5,1 3 4 5,2 3 4 5:3 3 3,4 3 3,6 3 3>","<45.12:5 3:1 2 3 5,1 2 4 5,1 3 4 5,2 3 4 5:3 3 6,4 3 3,3 4 4>","<54.2:5 3:1 2 3 5,1 2 4 5,1 3 5,2 3 4 5:3 3 3,3 4,3 6>","<54.4:5 3:1 2 3 5,1 2 4 5,1 3 5,2 3 4 5:3 3 3,4 4,3 4>","<222.77:5 3:1 2 4 5,1 3 5,2 3 4 5,1 5 4:4 12,3 2,3 4>"];

pub fn corpus3d() -> Vec<PartialDSym> { CORPUS.iter().map(|s| s.parse::<PartialDSym>().unwrap()).collect() }

fn pres<T: DSym>(s: &T) -> Value {
    let fg = fundamental_group(s);
    json!({"ng": fg.nr_generators(), "rels": fg.relators.iter().map(letters).collect::<Vec<_>>(), "ncones": fg.cones.len()})
}

/// all 3-D symbols on D-sets with exactly n chambers, branching in {1,2,3,4,6}, spherical tiles and vertex figures
pub fn domain3d(n: usize) -> Vec<PartialDSym> {
    let choices = [1usize, 2, 3, 4, 6];
    let mut out = vec![];
    for dset in DSets::new(3, n) {
        if dset.size() != n { continue; }
        let (rs, _, index) = collect_orbits(&dset);
        let ids: Vec<Vec<usize>> = (0..3).map(|i| { let mut v: Vec<usize> = (1..=n).map(|d| index[i][d]).collect(); v.sort(); v.dedup(); v }).collect();
        let mut vs = vec![1usize; rs.len()];
        let first: Vec<usize> = ids[0].iter().chain(ids[1].iter()).cloned().collect();
        let second: Vec<usize> = ids[2].clone();
        let mut idx1 = vec![0usize; first.len()];
        loop {
            for (p, &o) in first.iter().enumerate() { vs[o] = choices[idx1[p]]; }
            for &o in &second { vs[o] = 1; }
            let sym = build_sym_using_vs(as_dset(&dset), |i, d| Some(vs[index[i][d]]));
            let tiles_ok = sym.orbit_reps([0, 1, 2], 1..=n).iter().all(|&d| delaney2d::is_spherical(&subsymbol(&sym, [0, 1, 2], d)));
            if tiles_ok {
                let mut idx2 = vec![0usize; second.len()];
                loop {
                    for (p, &o) in second.iter().enumerate() { vs[o] = choices[idx2[p]]; }
                    let sym = build_sym_using_vs(as_dset(&dset), |i, d| Some(vs[index[i][d]]));
                    if sym.orbit_reps([1, 2, 3], 1..=n).iter().all(|&d| delaney2d::is_spherical(&subsymbol(&sym, [1, 2, 3], d))) { out.push(sym); }
                    let mut j = 0; loop { if j == second.len() { break; } idx2[j] += 1; if idx2[j] < choices.len() { break; } idx2[j] = 0; j += 1; }
                    if j == second.len() { break; }
                }
            }
            let mut j = 0; loop { if j == first.len() { break; } idx1[j] += 1; if idx1[j] < choices.len() { break; } idx1[j] = 0; j += 1; }
            if j == first.len() { break; }
        }
    }
    out
}

fn ptc_record(s: &PartialDSym) -> Result<(Value, Option<PartialDSym>), String> {
    catch(|| {
        let oc = oriented_cover(s);
        match pseudo_toroidal_cover(s) {
            Some(c) => (json!({"found": true, "oc": dsym_json(&oc), "cov": dsym_json(&c), "pres": pres(&c), "sheets": c.size() / oc.size()}), Some(c)),
            None => (json!({"found": false, "sheets": 0}), None),
        }
    })
}

pub fn drive_c15(args: &[String]) {
    let out = arg(args, "--out").unwrap();
    let max2 = arg_usize(args, "--max2d", 4);
    let max3 = arg_usize(args, "--max3d", 1);
    let sample = arg_usize(args, "--permille", 1000);
    let mut sink = Sink::create(&out);
    let mut rng = rng(15);
    for s in generated_2d(max2) {
        if !delaney2d::is_euclidean(&s) { continue; }
        let mut e = json!({"ev": "toroidal", "sym": dsym_json(&s)});
        pending(&e);
        match catch(|| { let c = delaney2d::toroidal_cover(&s); let p = pres(&c); (c, p) }) {
            Ok((c, p)) => { e["cov"] = dsym_json(&c); e["pres"] = p; }
            Err(m) => { e["panic"] = json!(m); }
        }
        sink.emit(e);
    }
    let mut list: Vec<(PartialDSym, bool, Option<Value>)> = corpus3d().into_iter().map(|s| (s, true, None)).collect();
    // prisms over euclidean 2-D symbols (built by the specification) and their 2-sheeted covers: euclidean by construction
    if let Some(p) = arg(args, "--prisms") {
        let mut fam = prism_family(&p, 2);
        let cap = arg_usize(args, "--prism-cap", 400);
        if fam.len() > cap { fam.shuffle(&mut rng); fam.truncate(cap); }
        for (b, s) in fam { list.push((s, true, Some(b))); }
    }
    for n in 1..=max3 { for s in domain3d(n) { if sample >= 1000 || rng.gen_range(0..1000) < sample { list.push((s, false, None)); } } }
    // prisms over 2-D symbols of EVERY orbifold type (spherical, euclidean, hyperbolic; one base per orbifold symbol):
    // inputs with 9-24 chambers whose groups are products with Z; nothing is claimed about them beyond the statement
    let over = arg_usize(args, "--prism-over", 0);
    let mut over_list: Vec<(PartialDSym, Value)> = vec![];
    if over > 0 { for (_, b) in prism_bases(over) { if let Ok(p) = catch(|| prism_over(&b)) { over_list.push((p, dsym_json(&b))); } } }
    let over_cap = arg_usize(args, "--prism-over-cap", 1000);
    if over_list.len() > over_cap { over_list.shuffle(&mut rng); over_list.truncate(over_cap); }
    for (p, b) in over_list { list.push((p, false, Some(json!({"over": b})))); }
    // renumberings are drawn here (seeded, in order); the calls themselves run in 12 threads and are recorded in order
    let perms: Vec<Vec<usize>> = list.iter().map(|(s, _, _)| rand_perm(s.size(), &mut rng)).collect();
    let items: Vec<(usize, &(PartialDSym, bool, Option<Value>))> = list.iter().enumerate().collect();
    let events: Vec<Value> = std::thread::scope(|sc| {
        let perms = &perms;
        let nthr = 12usize;
        let hs: Vec<_> = (0..nthr).map(|t| { let items = &items; sc.spawn(move || {
            items.iter().filter(|(k, _)| k % nthr == t).map(|(k, (s, is_corpus, prism_of))| {
                let mut e = json!({"ev": "pseudo_toroidal", "sym": dsym_json(s), "corpus": is_corpus});
                if let Some(b) = prism_of { if b.get("over").is_some() { e["prism_over"] = b["over"].clone(); } else { e["prism_of"] = b.clone(); } }
                match ptc_record(s) {
                    Ok((r, _)) => { for (k, v) in r.as_object().unwrap() { e[k] = v.clone(); } }
                    Err(m) => { e["panic"] = json!(m); }
                }
                let mut vs = vec![];
                let n = s.size();
                let mut variant = |how: &str, t: &PartialDSym| { let mut w = json!({"how": how}); if how == "dual" { w["sym"] = dsym_json(t); } match ptc_record(t) { Ok((r, _)) => { w["found"] = r["found"].clone(); w["sheets"] = r["sheets"].clone(); } Err(m) => { w["panic"] = json!(m); } } vs.push(w); };
                if n >= 2 { variant("renumber", &renumber(s, &perms[*k])); }
                variant("dual", &dual(s));
                e["variants"] = json!(vs);
                (*k, e)
            }).collect::<Vec<_>>()
        }) }).collect();
        let mut all: Vec<(usize, Value)> = hs.into_iter().flat_map(|h| h.join().unwrap()).collect();
        all.sort_by_key(|x| x.0);
        all.into_iter().map(|x| x.1).collect()
    });
    for e in events { sink.emit(e); }
    sink.flush();
    println!("{}", json!({"events": sink.n}));
}

fn simplify_event(input: &PartialDSym, ptc: bool, same_group: bool, nvariants: usize, rng: &mut StdRng, src: &str) -> Value {
    let mut e = json!({"ev": "simplify", "src": src, "in": dsym_json(input), "ptc": ptc, "same_group": same_group, "corpus": src.starts_with("ptc of corpus")});
    pending(&e);
    let run = |t: &PartialDSym| catch(|| {
        let o = simplify(t);
        let key = o.as_ref().map(|x| if x.is_connected() { canonical(&minimal_image(x)).to_string() } else { "disconnected".to_string() }).unwrap_or("none".into());
        (o, key)
    });
    match run(input) {
        Ok((o, key)) => {
            e["some"] = json!(o.is_some());
            e["key"] = json!(key);
            if let Some(o) = &o {
                e["out"] = dsym_json(o);
                if same_group && o.is_connected() {
                    match catch(|| (pres(input), pres(o))) { Ok((a, b)) => { e["pres_in"] = a; e["pres_out"] = b; } Err(m) => { e["panic"] = json!(format!("fundamental_group: {m}")); } }
                }
            }
            if e.get("pres_in").is_none() { e["pres_in"] = json!({"ng": 0, "rels": []}); e["pres_out"] = json!({"ng": 0, "rels": []}); e["same_group"] = json!(false); }
        }
        Err(m) => { e["panic"] = json!(m); }
    }
    // variants: random renumberings and plain repetitions of the same call (simplify() iterates over std hash sets,
    // so even the identical input can take different paths); computed in parallel, recorded in order
    let mut inputs: Vec<(String, PartialDSym)> = vec![];
    for _ in 0..nvariants { inputs.push(("renumber".into(), renumber(input, &rand_perm(input.size(), rng)))); }
    for _ in 0..repeats() { inputs.push(("repeat".into(), input.clone())); }
    let results: Vec<Value> = std::thread::scope(|sc| {
        let hs: Vec<_> = inputs.chunks(((inputs.len() + 7) / 8).max(1)).map(|ch| sc.spawn(move || ch.iter().map(|(how, t)| {
            let mut w = json!({"how": how});
            match run(t) { Ok((o, key)) => { w["some"] = json!(o.is_some()); w["key"] = json!(key); } Err(m) => { w["panic"] = json!(m); } }
            w
        }).collect::<Vec<_>>())).collect();
        hs.into_iter().flat_map(|h| h.join().unwrap()).collect()
    });
    e["variants"] = json!(results);
    e
}

static REPEATS: std::sync::atomic::AtomicUsize = std::sync::atomic::AtomicUsize::new(0);
fn repeats() -> usize { REPEATS.load(std::sync::atomic::Ordering::Relaxed) }

pub fn drive_c16(args: &[String]) {
    let out = arg(args, "--out").unwrap();
    let max3 = arg_usize(args, "--max3d", 1);
    let sample = arg_usize(args, "--permille", 1000);
    let mut sink = Sink::create(&out);
    let mut rng = rng(16);
    // (a) pseudo-toroidal covers of the corpus and of the duals of its symbols (3-tori: same group guaranteed, the key is
    // the same for every numbering and every repetition), then the recorded regression inputs (3-tori as well)
    let nvar = arg_usize(args, "--variants", 4);
    let nrep = arg_usize(args, "--repeats", 3);
    for s in corpus3d().into_iter().flat_map(|s| { let d = dual(&s); [s, d] }) {
        REPEATS.store(nrep, std::sync::atomic::Ordering::Relaxed);
        if let Ok(Some(c)) = catch(|| pseudo_toroidal_cover(&s)) { sink.emit(simplify_event(&c, true, true, nvar, &mut rng, "ptc of corpus")); }
    }
    // 2-sheeted covers of corpus symbols are euclidean too (a cover of a euclidean symbol describes the same tiling with
    // less symmetry), so their pseudo-toroidal covers are 3-tori: a seeded sample, each with two renumberings
    {
        let cap = arg_usize(args, "--cover-cap", 40);
        let mut cs: Vec<PartialDSym> = corpus3d().iter().flat_map(|s| small_covers(s, 2)).filter(|c| c.size() <= 16).collect();
        cs.shuffle(&mut rng);
        cs.truncate(cap);
        REPEATS.store(1, std::sync::atomic::Ordering::Relaxed);
        for c2 in cs {
            if let Ok(Some(c)) = catch(|| pseudo_toroidal_cover(&c2)) { if c.size() <= 400 { sink.emit(simplify_event(&c, true, true, 2, &mut rng, "ptc of corpus (2-sheeted cover of a corpus symbol)")); } }
        }
    }
    // the prism family of Prism.tla (euclidean by construction): their pseudo-toroidal covers are 3-tori as well
    if let Some(p) = arg(args, "--prisms") {
        let mut fam = prism_family(&p, 2);
        fam.shuffle(&mut rng);
        fam.truncate(arg_usize(args, "--prism-cap", 40));
        REPEATS.store(1, std::sync::atomic::Ordering::Relaxed);
        for (_, s) in fam {
            if let Ok(Some(c)) = catch(|| pseudo_toroidal_cover(&s)) { if c.size() <= 400 { sink.emit(simplify_event(&c, true, true, 2, &mut rng, "ptc of corpus (prism family)")); } }
        }
    }
    if let Some(path) = arg(args, "--regress") {
        for ln in std::fs::read_to_string(&path).unwrap().lines().filter(|l| !l.starts_with('#') && !l.trim().is_empty()) {
            REPEATS.store(4 * nrep, std::sync::atomic::Ordering::Relaxed);
            let c: PartialDSym = ln.trim().parse().unwrap();
            sink.emit(simplify_event(&c, true, true, nvar, &mut rng, "ptc of corpus"));
        }
    }
    REPEATS.store(0, std::sync::atomic::Ordering::Relaxed);
    // (b) pseudo-toroidal covers of the domain symbols that have one
    for n in 1..=max3 {
        for s in domain3d(n) {
            if sample < 1000 && rng.gen_range(0..1000) >= sample { continue; }
            if let Ok(Some(c)) = catch(|| pseudo_toroidal_cover(&s)) {
                if c.size() <= 240 { sink.emit(simplify_event(&c, true, false, 0, &mut rng, "ptc of domain symbol")); }
            }
        }
    }
    // (c) finite fundamental group: the spherical Coxeter symbols [p,q,r] and prisms [p,2,q] with crystallographic
    // branching (finite groups by classification), their covers with at most 2 sheets (subgroups of index <= 2 are
    // finite too); inputs for simplify are their finite universal covers and freely acting covers of their oriented
    // covers found by enumerating subgroups generated by one or two short words
    let thorough = std::env::var("DSV_THOROUGH").is_ok();
    // finiteness is decided by the library's own enumeration (a panic at its row limit = infinite) — used only to
    // select inputs: a wrongly selected input would merely make the homology comparison vacuous or fail loudly
    let mut cands: Vec<PartialDSym> = vec![];
    for n in 1..=2 { cands.extend(domain3d(n)); }
    let chunks: Vec<Vec<PartialDSym>> = cands.chunks((cands.len() + 13) / 14).map(|c| c.to_vec()).collect();
    let mut bases: Vec<PartialDSym> = vec![];
    std::thread::scope(|sc| {
        let hs: Vec<_> = chunks.iter().map(|ch| sc.spawn(move || {
            ch.iter().filter(|s| catch(|| finite_universal_cover(*s).size()).map_or(false, |k| k <= 600)).cloned().collect::<Vec<_>>()
        })).collect();
        for h in hs { bases.extend(h.join().unwrap_or_default()); }
    });
    bases.shuffle(&mut rng);
    let per_base = arg_usize(args, "--per-base", if thorough { 6 } else { 2 });
    let max_bases = arg_usize(args, "--bases", bases.len());
    bases.truncate(max_bases);
    let is_manifold = |c: &PartialDSym| {
        // (a universal cover that is still branched belongs to a bad orbifold and is outside the domain of the property)
        let branch_free = (0..=3).all(|i| (i..=3).all(|j| (1..=c.size()).all(|d| i == j || c.v(i, j, d) == Some(1))));
        let spheres = |idx: [usize; 3]| c.orbit_reps(idx, 1..=c.size()).iter().all(|&d| { let t = subsymbol(c, idx, d); t.is_loopless() && delaney2d::curvature(&t) == num_rational::Rational64::from(4) });
        branch_free && spheres([0, 1, 2]) && spheres([1, 2, 3])
    };
    let base_seed = seed();
    let work = |k: usize, s: &PartialDSym| -> Vec<Value> {
        let mut rng = StdRng::seed_from_u64(base_seed.wrapping_mul(1_000_003).wrapping_add(k as u64));
        let mut evs = vec![];
        let oc = oriented_cover(s);
        if rng.gen_bool(0.15) { if let Ok(u) = catch(|| finite_universal_cover(s)) { if u.size() <= 300 && is_manifold(&u) { evs.push(simplify_event(&u, false, true, 1, &mut rng, "finite universal cover")); } } }
        if let Ok(fg) = catch(|| fundamental_group(&oc)) {
            let ng = fg.nr_generators();
            if ng == 0 { return evs; }
            // cyclic subgroups generated by ALL short words, shortest first (seeded order within a length), then two-generator ones
            let mut pool: Vec<Vec<isize>> = crate::groups::short_words(ng, 4).into_iter().filter(|w| !w.is_empty()).collect();
            pool.shuffle(&mut rng);
            pool.sort_by_key(|w| w.len());
            let limit = if thorough { 2000 } else { 260 };
            let (mut tried, mut kept) = (0, 0);
            let mut seen_forms = std::collections::HashSet::new();
            while tried < limit && kept < per_base {
                let ws: Vec<FreeWord> = if tried < pool.len() { vec![FreeWord::new(pool[tried].iter().cloned())] }
                    else { (0..2).map(|_| FreeWord::new(pool.choose(&mut rng).unwrap().iter().cloned())).collect() };
                tried += 1;
                if let Ok(c) = catch(|| subgroup_cover(&oc, &ws)) {
                    if c.size() > 160 || c.size() == oc.size() { continue; }
                    if is_manifold(&c) && c.is_oriented() && seen_forms.insert(canonical(&c).to_string()) {
                        kept += 1;
                        evs.push(simplify_event(&c, false, true, 0, &mut rng, "freely acting cover, finite group"));
                        // what simplify does depends on the numbering (which moves apply first): every renumbering is a full event
                        for _ in 0..(if thorough { 4 } else { 2 }) {
                            let r = renumber(&c, &rand_perm(c.size(), &mut rng));
                            evs.push(simplify_event(&r, false, true, 0, &mut rng, "freely acting cover, finite group"));
                        }
                    }
                }
            }
        }
        evs
    };
    let idx: Vec<(usize, &PartialDSym)> = bases.iter().enumerate().collect();
    let parts: Vec<&[(usize, &PartialDSym)]> = idx.chunks((idx.len() + 13) / 14).collect();
    let mut all: Vec<(usize, Vec<Value>)> = vec![];
    std::thread::scope(|sc| {
        let hs: Vec<_> = parts.iter().map(|part| { let work = &work; sc.spawn(move || part.iter().map(|&(k, s)| (k, work(k, s))).collect::<Vec<_>>()) }).collect();
        for h in hs { all.extend(h.join().unwrap_or_default()); }
    });
    all.sort_by_key(|x| x.0);
    for (_, evs) in all { for e in evs { sink.emit(e); } }
    sink.flush();
    println!("{}", json!({"events": sink.n}));
}

fn verdict<T: DSym>(ds: &T) -> Result<(String, String), String> {
    catch(|| match is_euclidean(ds) {
        Euclidean::Yes => ("yes".to_string(), "".to_string()),
        Euclidean::No(s) => ("no".to_string(), s),
        Euclidean::Maybe(s, _) => ("maybe".to_string(), s),
    })
}

pub fn drive_c17(args: &[String]) {
    let out = arg(args, "--out").unwrap();
    let max3 = arg_usize(args, "--max3d", 1);
    let sample = arg_usize(args, "--permille", 1000);
    let cover_depth = arg_usize(args, "--cover-depth", 2);
    let mut sink = Sink::create(&out);
    let mut rng = rng(17);
    // work list: (symbol, is corpus, depth in the cover tree)
    let mut list: std::collections::VecDeque<(PartialDSym, bool, usize, Option<Value>)> = corpus3d().into_iter().map(|s| (s, true, 0, None)).collect();
    if let Some(p) = arg(args, "--prisms") {
        let mut fam = prism_family(&p, arg_usize(args, "--prism-sheets", 2));
        let cap = arg_usize(args, "--prism-cap", 150);
        if fam.len() > cap { fam.shuffle(&mut rng); fam.truncate(cap); }
        // deep in the tree already: the cover tree of these is not followed further
        for (b, s) in fam { list.push_back((s, true, usize::MAX / 2, Some(b))); }
    }
    // prisms over 2-D symbols of every orbifold type (one base per orbifold symbol): mostly NON-euclidean inputs with
    // 9-24 chambers whose groups are products with Z (nothing is claimed about them beyond the statement)
    let over = arg_usize(args, "--prism-over", 0);
    if over > 0 {
        let mut fam: Vec<(PartialDSym, Value)> = prism_bases(over).into_iter().filter_map(|(_, b)| catch(|| prism_over(&b)).ok().map(|p| (p, dsym_json(&b)))).collect();
        let cap = arg_usize(args, "--prism-over-cap", 40);
        if fam.len() > cap { fam.shuffle(&mut rng); fam.truncate(cap); }
        for (p, b) in fam { list.push_back((p, false, usize::MAX / 2, Some(json!({"over": b})))); }
    }
    for n in 1..=max3 { for s in domain3d(n) { list.push_back((s, false, 0, None)); } }
    let mut seen: std::collections::HashSet<String> = Default::default();
    while let Some((s, is_corpus, depth, prism_of)) = list.pop_front() {
        let mut e = json!({"ev": "euclidicity", "sym": dsym_json(&s), "corpus": is_corpus, "depth": depth.min(99)});
        if let Some(b) = &prism_of { if b.get("over").is_some() { e["prism_over"] = b["over"].clone(); } else { e["prism_of"] = b.clone(); } }
        pending(&e);
        let v = verdict(&s);
        // symbols rejected outright by the invariant filter are kept as a seeded sample only
        let dull = matches!(&v, Ok((c, why)) if c == "no" && why == "orbifold invariants do not match");
        if dull && depth == 0 && !is_corpus && !(sample >= 1000 || rng.gen_range(0..1000) < sample) { continue; }
        match &v {
            Ok((cls, why)) => {
                e["verdict"] = json!(cls); e["reason"] = json!(why);
                if cls == "yes" {
                    match catch(|| { let oc = oriented_cover(&s); let c = pseudo_toroidal_cover(&s).unwrap(); let simp = simplify(&c).unwrap(); (oc, c, simp) }) {
                        Ok((oc, c, simp)) => { e["cert"] = json!({"oc": dsym_json(&oc), "cov": dsym_json(&c), "pres": pres(&simp), "pres_cov": pres(&c)}); }
                        Err(m) => { e["panic"] = json!(format!("certificate: {m}")); }
                    }
                }
            }
            Err(m) => { e["panic"] = json!(m); }
        }
        let n = s.size();
        let mut vs = vec![];
        let mut variant = |how: &str, t: &PartialDSym| -> Option<String> { let mut w = json!({"how": how}); if how == "dual" { w["sym"] = dsym_json(t); } let r = verdict(t); match &r { Ok((c, _)) => w["verdict"] = json!(c), Err(m) => w["panic"] = json!(m) } vs.push(w); r.ok().map(|x| x.0) };
        if !dull || rng.gen_bool(0.2) {
            if n >= 2 { variant("renumber", &renumber(&s, &rand_perm(n, &mut rng))); }
            variant("dual", &dual(&s));
        }
        // covers: a few for every symbol that passed the filter; ALL 2-sheeted covers of a symbol reported
        // euclidean, and those reported euclidean in turn join the work list (contradictions show up deeper
        // in the cover tree: yes -> yes -> no)
        let is_yes = matches!(&v, Ok((c, _)) if c == "yes");
        if (!dull || n <= 2) && n <= 8 {
            let mut cs = catch(|| covers(&s, 2)).unwrap_or_default().into_iter().filter(|c| c.size() > n).collect::<Vec<_>>();
            cs.shuffle(&mut rng);
            if !is_yes { cs.truncate(2); } else { cs.truncate(40); }
            for c in cs {
                let cv = variant("cover", &c);
                if is_yes && depth < cover_depth && c.size() <= 8 && cv.as_deref() == Some("yes") {
                    let key = canonical(&c).to_string();
                    if seen.insert(key) { list.push_back((c, false, depth + 1, None)); }
                }
            }
        }
        e["variants"] = json!(vs);
        sink.emit(e);
    }
    sink.flush();
    println!("{}", json!({"events": sink.n}));
}


/// development aid: verdicts of is_euclidean over all covers with up to `--sheets` sheets of the prism family (tally only)
pub fn explore_prisms(args: &[String]) {
    let p = arg(args, "--prisms").unwrap();
    let sheets = arg_usize(args, "--sheets", 3);
    let maxn = arg_usize(args, "--maxn", 24);
    let mut fam = prism_family(&p, sheets);
    if arg(args, "--corpus").is_some() {
        fam.clear();
        for s in corpus3d() { let d = dual(&s); for c in small_covers(&s, 2).into_iter().take(6) { fam.push((json!(null), c)); } fam.push((json!(null), s)); fam.push((json!(null), d)); }
    }
    let mut tally: std::collections::BTreeMap<String, usize> = Default::default();
    let mut fam: Vec<_> = fam.into_iter().filter(|(_, s)| s.size() <= maxn).collect();
    let nren = arg_usize(args, "--renumber", 0);
    if nren > 0 {
        let mut rng = rng(171);
        let base = std::mem::take(&mut fam);
        for (b, s) in base { for _ in 0..nren { fam.push((b.clone(), renumber(&s, &rand_perm(s.size(), &mut rng)))); } fam.push((b, s)); }
    }
    eprintln!("{} symbols", fam.len());
    let results: Vec<(String, String)> = std::thread::scope(|sc| {
        let hs: Vec<_> = fam.chunks((fam.len() + 11) / 12).map(|ch| sc.spawn(move || ch.iter().map(|(_, s)| {
            let v = verdict(s);
            (match &v { Ok((c, why)) => format!("{c}: {why}"), Err(m) => format!("panic: {m}") }, s.to_string())
        }).collect::<Vec<_>>())).collect();
        hs.into_iter().flat_map(|h| h.join().unwrap()).collect()
    });
    for (k, s) in results { if !k.starts_with("yes") { println!("{k}  {s}"); } *tally.entry(k).or_insert(0) += 1; }
    println!("{:?}", tally);
}

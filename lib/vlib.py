"""Shared plumbing for /verif/bin/check.

One Ctx per run of one property at one tier.  It builds the Rust harness against the
current working tree of /repo, runs TLC (model checking of the spec alone, case generation
spec -> impl, trace validation impl -> spec), collects the coverage counters and writes
evidence/<id>.json.  Exit codes: 0 held, 1 violation (with VIOLATION line), 2 tool error.
"""
import concurrent.futures as cf
import json
import os
import re
import shutil
import subprocess
import sys
import time
from pathlib import Path

VERIF = Path(__file__).resolve().parent.parent
SPEC = VERIF / "spec"
HARNESS = VERIF / "harness"
# development only (bin/selftest): judge a scratch copy of the repository with a patch applied instead of /repo, with
# its own copy of the harness, work, evidence and replay directories, so that /repo itself is never touched
MUT = os.environ.get("VERIF_MUT")
OUTROOT = Path(MUT) if MUT else VERIF
if MUT:
    HARNESS = Path(MUT) / "harness"
REPO = Path("/repo")
JARS = "/opt/veriftools/tla/tla2tools.jar:/opt/veriftools/tla/CommunityModules-deps.jar"
GUARD = "rust_dsymbols_verif"


class ToolError(Exception):
    pass


class Violation(Exception):
    def __init__(self, msg, replay_lines=None, replay_name=None):
        super().__init__(msg)
        self.msg = msg
        self.replay_lines = replay_lines
        self.replay_name = replay_name


def log(*a):
    print(*a, flush=True)


def known_findings():
    """open: lines of KNOWN_FINDINGS.txt as (property, key, text)."""
    out = []
    p = VERIF / "KNOWN_FINDINGS.txt"
    if p.exists():
        for ln in p.read_text().splitlines():
            m = re.match(r"open:\s+property=(\S+)\s+key=(\S+)\s+(.*)", ln)
            if m:
                out.append((m.group(1), m.group(2), m.group(3)))
    return out


KEYFIELDS = ("ev", "grp", "name", "ng", "rels", "subs", "sym", "in", "base", "k", "text")


def finding_key(line):
    """stable key of an event's INPUT (not of its outcome): sha1 over the input fields that are present"""
    import hashlib
    try:
        e = json.loads(line)
    except Exception:
        return None
    return hashlib.sha1(json.dumps({f: e[f] for f in KEYFIELDS if f in e}, sort_keys=True).encode()).hexdigest()[:16]


class Ctx:
    def __init__(self, pid, tier, seed):
        self.pid = pid
        self.tier = tier
        self.quick = tier == "quick"
        self.seed = seed
        self.t0 = time.time()
        self.work = OUTROOT / "work" / pid
        if self.work.exists():
            shutil.rmtree(self.work)
        self.work.mkdir(parents=True)
        self.states = 0
        self.transitions = 0
        self.traces = 0
        self.evaluations = 0
        self.nontrivial = set()
        self.nontrivial_extra = 0
        self.samples = []
        self.notes = []
        self.assumptions = []
        self.exhaustive_universes = []
        self.mc_runs = []
        self.extra = {}
        self.violations = []
        self.known = []
        self.bin = None
        self.ncpu = max(2, min(16, os.cpu_count() or 4))

    # ------------------------------------------------------------------ build
    def build(self):
        env = dict(os.environ, CARGO_NET_OFFLINE="true")
        t = time.time()
        r = subprocess.run(["cargo", "build", "--release", "--offline", "-q"], cwd=HARNESS, env=env,
                           stdout=subprocess.PIPE, stderr=subprocess.STDOUT, text=True)
        if r.returncode != 0:
            tail = "\n".join(l for l in r.stdout.splitlines() if "warning" not in l)[-3000:]
            raise ToolError("cargo build of the harness against /repo failed:\n" + tail)
        self.bin = HARNESS / "target" / "release" / "dsv"
        log(f"[build] harness built against {(MUT + '/repo (scratch copy with a patch)') if MUT else '/repo working tree'} in {time.time()-t:.1f}s")

    # ------------------------------------------------------------------ harness
    def dsv(self, *args, timeout=1800, stdin=None, out=None, totality=True):
        """Run the harness.  A timeout of the *library under test* is a violation when the
        property's statement includes termination; the harness prints the pending input to
        <work>/pending.json before every risky call."""
        if self.bin is None:
            self.build()
        cmd = [str(self.bin)] + [str(a) for a in args]
        env = dict(os.environ, DSV_WORK=str(self.work), DSV_SEED=str(self.seed), RUST_BACKTRACE="0")
        if not self.quick:
            env["DSV_THOROUGH"] = "1"
        pend = self.work / "pending.json"
        if pend.exists():
            pend.unlink()
        t = time.time()
        try:
            r = subprocess.run(cmd, cwd=self.work, env=env, input=stdin, text=True,
                               stdout=(open(out, "w") if out else subprocess.PIPE),
                               stderr=subprocess.PIPE, timeout=timeout)
        except subprocess.TimeoutExpired:
            if totality and pend.exists():
                raise Violation(f"library call did not return within {timeout}s (input in replay file)",
                                replay_lines=[pend.read_text()], replay_name="timeout.ndjson")
            raise ToolError(f"harness {' '.join(cmd[1:])} timed out after {timeout}s")
        if r.returncode != 0:
            raise ToolError(f"harness {' '.join(cmd[1:])} exited {r.returncode}:\n{(r.stderr or '')[-3000:]}")
        log(f"[dsv] {' '.join(str(a) for a in args)} ({time.time()-t:.1f}s)")
        return r.stdout if not out else None

    # ------------------------------------------------------------------ TLC
    def _tlc_cmd(self, module_path, cfg_path, workers, metadir, extra, xmx):
        return ["java", "-XX:+UseParallelGC", "-Xss1g", f"-Xmx{xmx}",
                "-Dtlc2.tool.queue.IStateQueue=StateDeque" if workers == 1 else "-Dverif.dummy=1",
                f"-DTLA-Library={SPEC}:{SPEC/'trace'}:{SPEC/'gen'}:{SPEC/'mc'}",
                "-cp", JARS, "tlc2.TLC", "-workers", str(workers), "-metadir", str(metadir),
                "-noGenerateSpecTE", "-cleanup", "-maxSetSize", "20000000", "-config", str(cfg_path)] + extra + [str(module_path)]

    def tlc_raw(self, module, cfg=None, workers=1, env=None, timeout=1800, extra=None, xmx="4g", tag=None):
        """Run TLC on spec/**/<module>.tla; returns (returncode, stdout)."""
        mp = None
        for sub in ("mc", "trace", "gen", ""):
            p = SPEC / sub / f"{module}.tla"
            if p.exists():
                mp = p
                break
        if mp is None:
            raise ToolError(f"no such module {module}")
        cp = mp.parent / f"{cfg or module}.cfg"
        tag = tag or module
        metadir = self.work / "tlc" / tag
        if metadir.exists():
            shutil.rmtree(metadir)
        metadir.mkdir(parents=True)
        e = dict(os.environ)
        e.pop("JAVA_TOOL_OPTIONS", None)
        if env:
            e.update({k: str(v) for k, v in env.items()})
        cmd = self._tlc_cmd(mp, cp, workers, metadir, extra or [], xmx)
        try:
            r = subprocess.run(cmd, cwd=metadir, env=e, stdout=subprocess.PIPE, stderr=subprocess.STDOUT,
                               text=True, timeout=timeout)
        except subprocess.TimeoutExpired:
            raise ToolError(f"TLC on {module} timed out after {timeout}s")
        shutil.rmtree(metadir / "states", ignore_errors=True)
        return r.returncode, r.stdout

    @staticmethod
    def _counts(out):
        m = re.search(r"(\d+) states generated, (\d+) distinct states found", out)
        if not m:
            return 0, 0
        return int(m.group(2)), int(m.group(1))

    def mc(self, module, cfg=None, workers=None, env=None, timeout=1800, require_actions=(), xmx="8g",
           label=None, universe=None):
        """Exhaustive model checking of the specification alone (no code involved).  A failure
        here is a defect of the *specification*, i.e. a tool error (exit 2), never a violation."""
        t = time.time()
        workers = workers or min(8, self.ncpu)
        rc, out = self.tlc_raw(module, cfg, workers=workers, env=env, timeout=timeout,
                               extra=(["-coverage", "1"] if require_actions else []), xmx=xmx, tag=(label or cfg or module))
        if rc != 0 or "Model checking completed. No error has been found" not in out:
            raise ToolError(f"model checking of {module}/{cfg or module} failed (specification error, not a "
                            f"finding about the code):\n" + out[-4000:])
        st, tr = self._counts(out)
        # vacuity: every named action must have been taken
        for a in require_actions:
            m = re.search(r"<%s line[^>]*>: (\d+):(\d+)" % re.escape(a), out)
            if not m or int(m.group(2)) == 0:
                raise ToolError(f"vacuity: action {a} of {module} was never taken in the bounded model")
        self.states += st
        self.transitions += tr
        rec = {"module": module, "cfg": cfg or module, "distinct_states": st, "states_generated": tr,
               "wall_s": round(time.time() - t, 1)}
        if env:
            rec["constants_env"] = {k: str(v) for k, v in env.items()}
        self.mc_runs.append(rec)
        if universe:
            self.exhaustive_universes.append(universe)
        log(f"[mc] {module}/{cfg or module}: {st} distinct states, {tr} generated, {time.time()-t:.1f}s")
        return out

    def gen(self, module, out_name, cfg=None, env=None, timeout=1800, xmx="8g", workers=1):
        """Spec -> impl: TLC evaluates a generator module that serialises cases/behaviours with
        their expected abstract results to <work>/<out_name> (ndjson)."""
        t = time.time()
        outp = self.work / out_name
        e = {"OUT": str(outp)}
        if env:
            e.update(env)
        rc, out = self.tlc_raw(module, cfg, workers=workers, env=e, timeout=timeout, xmx=xmx,
                               tag=f"gen_{out_name}")
        if rc != 0 or not outp.exists():
            raise ToolError(f"case generation by {module} failed:\n" + out[-4000:])
        st, tr = self._counts(out)
        self.states += st
        self.transitions += tr
        n = sum(1 for _ in open(outp))
        log(f"[gen] {module} -> {out_name}: {n} cases ({time.time()-t:.1f}s)")
        return outp, n

    # ------------------------------------------------------------------ trace validation
    def _validate_shard(self, module, cfg, shard_path, idx, env, timeout, xmx):
        e = {"TRACE": str(shard_path)}
        if env:
            e.update(env)
        rc, out = self.tlc_raw(module, cfg, workers=1, env=e, timeout=timeout, xmx=xmx,
                               tag=f"val_{module}_{idx}")
        st, tr = self._counts(out)
        notes = re.findall(r'"NOTE", (.*?)>>', out)
        m = re.search(r'"TRACE", "accepted", (\d+)', out)
        if m and rc == 0:
            return dict(ok=True, n=int(m.group(1)), states=st, transitions=tr, notes=notes, out=None, idx=idx)
        m = re.search(r'"TRACE", "rejected", (\d+)', out)
        if m:
            return dict(ok=False, at=int(m.group(1)), states=st, transitions=tr, notes=notes,
                        out=out[-3000:], idx=idx)
        # evaluation error while processing an event: locate it through the last state printed
        # resource / representation limits of TLC are tool errors, never verdicts about the code
        for pat in ("too many elements", "overflow", "OutOfMemory", "StackOverflow", "heap space", "deserialize", "Json", "NumberFormat",
                    "too large", "GC overhead"):
            if pat in out:
                raise ToolError(f"TLC hit a resource/representation limit while validating ({module}): {pat}\n" + out[-2500:])
        m = re.findall(r"\bl = (\d+)", out)
        if m and ("Error:" in out or "error" in out.lower()):
            return dict(ok=False, at=int(m[-1]), states=st, transitions=tr, notes=notes,
                        out=out[-3000:], idx=idx, evalerr=True)
        raise ToolError(f"TLC trace validation ({module}) failed without a verdict:\n" + out[-4000:])

    def validate(self, module, events_path, cfg=None, shard=2000, env=None, timeout=1800, xmx="3g",
                 group_key=None, jobs=None, group_field=None):
        """impl -> spec: validate the ndjson trace written by the harness against spec/trace/<module>.
        The trace is cut into shards (at 'reset' boundaries when group_key is given, i.e. events
        that belong together stay together); each shard is one TLC run with -workers 1.
        Returns the list of rejections [(global_line, event, tlc_output)]."""
        lines = [ln for ln in open(events_path).read().split("\n") if ln.strip()]
        if not lines:
            raise ToolError(f"empty trace {events_path}")
        # recorded (open) findings: an event that fails on its face (the call panicked) and whose input is listed in
        # KNOWN_FINDINGS.txt is reported as KNOWN-FINDING and taken out of the trace; everything else is judged as usual
        opened = {k: t for (p_, k, t) in known_findings() if p_ == self.pid}
        if opened:
            kept = []
            for ln in lines:
                if '"panic"' in ln:
                    k = finding_key(ln)
                    if k in opened:
                        if opened[k] not in self.known:
                            self.known.append(opened[k])
                        continue
                kept.append(ln)
            lines = kept
        shards = []
        cur = []
        prev_grp = None
        for ln in lines:
            boundary = True
            if group_field is not None:
                m = re.search(r'"%s":"([^"]*)"' % group_field, ln)
                g = m.group(1) if m else None
                boundary = g != prev_grp
                prev_grp = g
            elif group_key is not None:
                boundary = ('"%s"' % group_key) in ln[:80]
            if len(cur) >= shard and boundary:
                shards.append(cur)
                cur = []
            cur.append(ln)
        if cur:
            shards.append(cur)
        sdir = self.work / "shards" / module
        sdir.mkdir(parents=True, exist_ok=True)
        paths = []
        offs = []
        o = 0
        for k, sh in enumerate(shards):
            p = sdir / f"{Path(events_path).stem}_{k}.ndjson"
            p.write_text("\n".join(sh) + "\n")
            paths.append(p)
            offs.append(o)
            o += len(sh)
        t = time.time()
        rejections = []
        jobs = jobs or max(1, self.ncpu - 2)
        with cf.ThreadPoolExecutor(max_workers=jobs) as ex:
            futs = [ex.submit(self._validate_shard, module, cfg, p, f"{Path(events_path).stem}_{k}", env, timeout, xmx)
                    for k, p in enumerate(paths)]
            for k, f in enumerate(futs):
                r = f.result()
                self.states += r["states"]
                self.transitions += r["transitions"]
                for n in r["notes"]:
                    self.notes.append(n)
                if r["ok"]:
                    if r["n"] != len(shards[k]):
                        raise ToolError(f"trace shard {k}: accepted {r['n']} of {len(shards[k])} events?")
                    self.traces += 1
                    self.evaluations += len(shards[k])
                else:
                    at = r["at"]
                    ev = shards[k][at - 1] if 1 <= at <= len(shards[k]) else None
                    self.evaluations += max(0, at - 1)
                    rejections.append(dict(line=offs[k] + at, event=ev, out=r["out"], shard=shards[k], at=at,
                                           evalerr=r.get("evalerr", False)))
        log(f"[trace] {module}: {len(lines)} events in {len(shards)} shard(s), "
            f"{len(rejections)} rejected ({time.time()-t:.1f}s)")
        if not self.samples:
            self.samples.extend(json.loads(x) for x in lines[:2])
        return rejections

    def confirm_and_raise(self, module, rejections, cfg=None, env=None, context_of=None, xmx="3g"):
        """A rejected event is re-validated in isolation (together with the context events it
        depends on, given by context_of(shard, at) -> list of lines) before it is reported."""
        for rj in rejections:
            if rj["event"] is None:
                raise ToolError("rejection without event:\n" + (rj["out"] or ""))
            ctx_lines = context_of(rj["shard"], rj["at"]) if context_of else [rj["event"]]
            p = self.work / "shards" / f"confirm_{module}.ndjson"
            p.parent.mkdir(parents=True, exist_ok=True)
            p.write_text("\n".join(ctx_lines) + "\n")
            r = self._validate_shard(module, cfg, p, "confirm", env, 1800, xmx)
            if r["ok"]:
                raise ToolError(f"event rejected in its shard but accepted in isolation (shard artefact):\n{rj['event'][:500]}")
            why = ""
            m = re.findall(r'"WHY", (.*?)>>', rj["out"] or "")
            if m:
                why = " clause=" + m[-1]
            raise Violation(f"trace event {rj['line']} is not a behaviour of the specification ({module}){why}",
                            replay_lines=ctx_lines, replay_name=f"{module}_rejected.ndjson")

    def confirm_and_note(self, module, rejections, context_of=None, xmx="3g"):
        """Hooked step validation (Trace_C11h / C12h / C19h).  The logged steps are INTERNAL steps of one particular
        algorithm: a lawful variation of the library may take other steps while every statement of the property still
        holds, and the property itself is decided on the results of the public routines by the API-level trace spec.  A
        step that is not a step of the machine is therefore reported as NOTE conformance (after re-validation in
        isolation), never as a violation; the rest of that run is not validated."""
        for rj in rejections:
            if rj["event"] is None:
                raise ToolError("rejection without event:\n" + (rj["out"] or ""))
            ctx_lines = context_of(rj["shard"], rj["at"]) if context_of else [rj["event"]]
            p = self.work / "shards" / f"confirm_{module}.ndjson"
            p.parent.mkdir(parents=True, exist_ok=True)
            p.write_text("\n".join(ctx_lines) + "\n")
            r = self._validate_shard(module, None, p, "confirm", None, 1800, xmx)
            if r["ok"]:
                raise ToolError(f"event rejected in its shard but accepted in isolation (shard artefact):\n{rj['event'][:500]}")
            self.notes.append(f'"hooked step is not a step of the machine ({module})", {rj["line"]}')
            d = OUTROOT / "replays" / self.pid
            d.mkdir(parents=True, exist_ok=True)
            (d / f"{module}_note.ndjson").write_text("\n".join(ctx_lines) + "\n")

    # ------------------------------------------------------------------ bookkeeping
    def add_nontrivial(self, keys):
        for k in keys:
            self.nontrivial.add(k)

    def sample(self, x):
        if len(self.samples) < 4:
            self.samples.append(x)

    def assume(self, *texts):
        for t in texts:
            if t not in self.assumptions:
                self.assumptions.append(t)

    def write_evidence(self, rule, violations=0, explanation=None):
        if os.environ.get("VERIF_NO_EVIDENCE"):
            return
        cov = {
            "states": self.states,
            "transitions": self.transitions,
            "traces_validated_against_impl": self.traces,
            "evaluations": self.evaluations,
            "distinct_nontrivial": len(self.nontrivial) + self.nontrivial_extra,
            "rule": rule,
            "samples": self.samples[:4] if self.samples else ["(no sample recorded)"],
            "exhaustive": bool(self.exhaustive_universes),
            "exhaustive_universes": self.exhaustive_universes,
            "mc_runs": self.mc_runs,
            "conformance_notes": len(self.notes),
            "conformance_note_samples": self.notes[:5],
            "checker_cmd": "tlc (tla2tools 1.8.0) via bin/check",
        }
        if explanation:
            cov["explanation"] = explanation
        cov.update(self.extra)
        ev = {
            "property_id": self.pid,
            "tier": self.tier,
            "seed": self.seed,
            "level": "model_checking",
            "coverage": cov,
            "assumptions": self.assumptions,
            "wall_s": round(time.time() - self.t0, 1),
            "violations": violations,
        }
        d = OUTROOT / "evidence"
        d.mkdir(exist_ok=True)
        (d / f"{self.pid}.json").write_text(json.dumps(ev, indent=1, sort_keys=True) + "\n")


def run_check(pid, tier, seed, body, rule):
    """body(ctx) runs the steps; returns nothing.  Handles exit codes and evidence."""
    ctx = Ctx(pid, tier, seed)
    try:
        body(ctx)
        for n in ctx.notes[:20]:
            log(f"NOTE conformance property={pid} {n}")
        for k in ctx.known:
            log(f"KNOWN-FINDING: property={pid} {k}")
        ctx.write_evidence(rule, violations=0)
        log(f"OK property={pid} tier={tier} evaluations={ctx.evaluations} states={ctx.states} "
            f"traces={ctx.traces} wall={time.time()-ctx.t0:.1f}s")
        return 0
    except Violation as v:
        rdir = OUTROOT / "replays" / pid
        rdir.mkdir(parents=True, exist_ok=True)
        rp = rdir / (v.replay_name or "replay.ndjson")
        rp.write_text("\n".join(v.replay_lines or []) + "\n")
        ctx.write_evidence(rule, violations=1)
        log(f"[violation] {v.msg}")
        log(f"VIOLATION property={pid} replay={rp}")
        return 1
    except ToolError as e:
        log(f"TOOL-ERROR property={pid}: {e}")
        try:
            ctx.write_evidence(rule, violations=0, explanation="run aborted by a tool error: " + str(e)[:300])
        except Exception:
            pass
        return 2

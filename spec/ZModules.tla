---------------------------- MODULE ZModules ----------------------------
(* Integer matrices as sequences of rows.  Invariant factors are DEFINED through determinantal
   divisors (d_k = gcd of all k x k minors, factor_k = d_k / d_{k-1}); an independent recursive
   Smith reduction is the second oracle for matrices too large for minors.  MC_ZModules
   checks that the two agree on all small matrices. *)
EXTENDS Integers, Sequences, FiniteSets, FiniteSetsExt, SequencesExt, TLC
Abs(x) == IF x < 0 THEN -x ELSE x
NR(A) == Len(A)
NC(A) == IF Len(A) = 0 THEN 0 ELSE Len(A[1])
RECURSIVE Gcd(_,_)
Gcd(a, b) == IF b = 0 THEN Abs(a) ELSE Gcd(b, a % Abs(b))
RECURSIVE GcdSet(_)
GcdSet(S) == IF S = {} THEN 0 ELSE LET x == CHOOSE y \in S : TRUE IN Gcd(x, GcdSet(S \ {x}))

\* determinant by Laplace expansion along the first row (rows/cols given as ascending sequences)
RECURSIVE DetSub(_,_,_), DetTerms(_,_,_,_)
DetSub(A, rows, cols) == IF rows = <<>> THEN 1 ELSE DetTerms(A, rows, cols, Len(cols))
DetTerms(A, rows, cols, k) ==
   IF k = 0 THEN 0 ELSE
   LET r == Head(rows)  c == cols[k]
       rest == SubSeq(cols, 1, k-1) \o SubSeq(cols, k+1, Len(cols))
       term == IF A[r][c] = 0 THEN 0
               ELSE (IF k % 2 = 1 THEN 1 ELSE -1) * A[r][c] * DetSub(A, Tail(rows), rest)
   IN term + DetTerms(A, rows, cols, k - 1)
AscSeq(S) == SetToSortSeq(S, <)
Det(A) == DetSub(A, [i \in 1..NR(A) |-> i], [j \in 1..NC(A) |-> j])
Minors(A, k) == {DetSub(A, AscSeq(R), AscSeq(C)) : R \in kSubset(k, 1..NR(A)), C \in kSubset(k, 1..NC(A))}
DetDivisor(A, k) == IF k = 0 THEN 1 ELSE GcdSet(Minors(A, k))
MinDim(A) == IF NR(A) < NC(A) THEN NR(A) ELSE NC(A)
\* invariant factors f_1 | f_2 | ... (length min(n,m); zeros at the end)
InvariantFactors(A) ==
   [k \in 1..MinDim(A) |-> IF DetDivisor(A, k) = 0 THEN 0 ELSE DetDivisor(A, k) \div DetDivisor(A, k-1)]
RankZ(A) == Cardinality({k \in 1..MinDim(A) : DetDivisor(A, k) # 0})

(* second oracle: recursive Smith reduction *)
Quot(a, p) == IF p > 0 THEN a \div p ELSE -(a \div (-p))
\* extended Euclid with truncating division exactly as `gcdx` in geometry/traits.rs: <<g, r, s, r', s'>> with
\* g = r*a + s*b and 0 = r'*a + s'*b  (shared by Diagonalize.tla and Echelon.tla)
\* Rust's truncating division: `Quot` is floor division for p > 0; the code divides machine integers, which truncates toward zero
TQuot(a, b) == LET q == Abs(a) \div Abs(b) IN IF (a < 0) = (b < 0) THEN q ELSE -q
RECURSIVE GcdxT(_,_,_,_,_,_)
GcdxT(a, an, r, rn, s, sn) ==
   IF an = 0 THEN <<a, r, s, rn, sn>>
   ELSE LET q == TQuot(a, an) IN GcdxT(an, a - q * an, rn, r - q * rn, sn, s - q * sn)
Gcdx(a, b) == GcdxT(a, b, 1, 0, 0, 1)
TRem(a, b) == a - TQuot(a, b) * b
RECURSIVE SNF(_)
SNF(A) ==
  LET n == NR(A) m == NC(A) IN
  IF n = 0 \/ m = 0 THEN <<>> ELSE
  LET nz == {<<i,j>> \in (1..n) \X (1..m) : A[i][j] # 0} IN
  IF nz = {} THEN [k \in 1..(IF n < m THEN n ELSE m) |-> 0] ELSE
  LET piv == CHOOSE p \in nz : \A q \in nz : Abs(A[p[1]][p[2]]) <= Abs(A[q[1]][q[2]])
      pr == piv[1] pc == piv[2] p == A[pr][pc]
      ri(i) == IF i = 1 THEN pr ELSE IF i = pr THEN 1 ELSE i
      ci(j) == IF j = 1 THEN pc ELSE IF j = pc THEN 1 ELSE j
      B == [i \in 1..n |-> [j \in 1..m |-> A[ri(i)][ci(j)]]]
      C == [i \in 1..n |-> IF i = 1 THEN B[1] ELSE LET q == Quot(B[i][1], p) IN [j \in 1..m |-> B[i][j] - q * B[1][j]]]
      D == [i \in 1..n |-> [j \in 1..m |-> IF j = 1 THEN C[i][1] ELSE C[i][j] - Quot(C[1][j], p) * C[i][1]]]
      dirty == (\E i \in 2..n : D[i][1] # 0) \/ (\E j \in 2..m : D[1][j] # 0)
  IN IF dirty THEN SNF(D) ELSE
     LET badpos == {<<i,j>> \in (2..n) \X (2..m) : D[i][j] % Abs(p) # 0} IN
     IF badpos # {} THEN
        LET b == CHOOSE x \in badpos : TRUE IN SNF([i \in 1..n |-> IF i = 1 THEN [j \in 1..m |-> D[1][j] + D[b[1]][j]] ELSE D[i]])
     ELSE <<Abs(p)>> \o SNF([i \in 1..(n-1) |-> [j \in 1..(m-1) |-> D[i+1][j+1]]])

RECURSIVE InsertSorted(_,_)
InsertSorted(x, s) == IF s = <<>> THEN <<x>> ELSE IF x <= Head(s) THEN <<x>> \o s ELSE <<Head(s)>> \o InsertSorted(x, Tail(s))
RECURSIVE SortSeqI(_)
SortSeqI(s) == IF s = <<>> THEN <<>> ELSE InsertSorted(Head(s), SortSeqI(Tail(s)))
(* the abelian invariants of Z^ngens / rowspace(A): invariant factors # 1, one 0 per free
   generator, ascending.  `factors` is InvariantFactors(A) or SNF(A). *)
AbelianFrom(factors, ngens) ==
   IF ngens = 0 THEN <<>> ELSE
   LET nonone == SelectSeq(factors, LAMBDA x : x # 1)
       pad == [k \in 1..(ngens - Len(factors)) |-> 0]
   IN SortSeqI(nonone \o pad)
AbelianInvariants(A, ngens) == AbelianFrom(IF Len(A) = 0 THEN <<>> ELSE SNF(A), ngens)
AbelianInvariantsByMinors(A, ngens) == AbelianFrom(IF Len(A) = 0 THEN <<>> ELSE InvariantFactors(A), ngens)
=============================================================================

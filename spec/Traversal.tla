---------------------------- MODULE Traversal ----------------------------
(* The index-priority traversal of a D-set (src/dsets.rs, struct Traversal) as a machine, and
   the laws the property states about what a traversal reports.  One `Pop` = one turn of the
   loop inside next(): take a chamber from the non-empty queue of least index, else the next
   seed; report it unless this (chamber, index) was seen.  An undefined op(i,d) is reported
   as the loop (i,d,d).  -1 stands for "no index" (a seed / component representative). *)
EXTENDS DSym
NoIdx == -1
TInit(I, seeds) == [todo |-> [i \in I |-> <<>>], seen |-> {}, seeds |-> seeds, out |-> <<>>, fin |-> FALSE]
Busy(I, st) == {i \in I : st.todo[i] # <<>>}
TPop(S, I, st) ==
   LET busy == Busy(I, st)
       i == IF busy = {} THEN NoIdx ELSE Least(busy)
   IN IF i = NoIdx /\ st.seeds = <<>> THEN [st EXCEPT !.fin = TRUE] ELSE
      LET d == IF i = NoIdx THEN Head(st.seeds) ELSE Head(st.todo[i])
          st1 == IF i = NoIdx THEN [st EXCEPT !.seeds = Tail(@)] ELSE [st EXCEPT !.todo[i] = Tail(@)]
      IN IF <<d, i>> \in st.seen THEN st1 ELSE
         LET di == IF i = NoIdx THEN d ELSE IF Op(S, i, d) = 0 THEN d ELSE Op(S, i, d) IN
         [st1 EXCEPT !.todo = [k \in I |-> IF k < 2 THEN <<di>> \o st1.todo[k] ELSE Append(st1.todo[k], di)],
                     !.seen = @ \cup {<<di, NoIdx>>, <<di, i>>, <<d, i>>},
                     !.out = Append(@, <<i, d, di>>)]
RECURSIVE TRun(_,_,_)
TRun(S, I, st) == IF st.fin THEN st.out ELSE TRun(S, I, TPop(S, I, st))
\* what the reference machine reports for (S, I, seeds)
TraversalOf(S, I, seeds) == TRun(S, I, TInit(I, seeds))

(* ---- the laws of the statement, evaluated on any reported sequence `out` ---- *)
Img(S, i, d) == IF Op(S, i, d) = 0 THEN d ELSE Op(S, i, d)       \* undefined counts as a loop
SeedComps(S, I, seeds) == {Orbit(S, I, seeds[k]) : k \in 1..Len(seeds)}
TraversalLaws(S, I, seeds, out) ==
   LET comps == SeedComps(S, I, seeds)
       covered == UNION comps
       idx(k) == out[k][1]   from(k) == out[k][2]   to(k) == out[k][3]
   IN /\ \A k \in 1..Len(out) :
            /\ from(k) \in covered /\ to(k) \in covered                      \* nothing outside the seeds' components
            /\ IF idx(k) = NoIdx THEN to(k) = from(k) ELSE idx(k) \in I /\ to(k) = Img(S, idx(k), from(k))
      \* every i-edge of every traversed component is reported exactly once (in either direction)
      /\ \A i \in I, d \in covered :
            Cardinality({k \in 1..Len(out) : idx(k) = i /\ {from(k), to(k)} = {d, Img(S, i, d)}}) = 1
      \* exactly one representative per traversed component
      /\ \A C \in comps : Cardinality({k \in 1..Len(out) : idx(k) = NoIdx /\ from(k) \in C}) = 1
\* consequences for the derived queries
OrbitFrom(out) == {out[k][3] : k \in 1..Len(out)}
RepsFrom(out) == SelectSeq(out, LAMBDA t : t[1] = NoIdx)
=============================================================================

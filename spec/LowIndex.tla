------------------------------- MODULE LowIndex -------------------------------
(* The low-index subgroup enumeration (src/fpgroups/cosets.rs: derived_table, potential_children,
   is_canonical, CosetTableBacktracking) as a machine over PARTIAL coset tables.

   A partial table is [gens |-> k, img |-> rows] as in Action.tla with -1 for undefined entries.
   Nodes of the backtracking tree are tables that are CLOSED: no relator (in any rotation or
   inverted) traced from any row has a gap of exactly one letter (a pending deduction) or closes
   on two different rows (a contradiction).  `Derive(T, from, to, g)` joins from -g-> to and takes
   the deductive closure: the least closed extension, or Fail if the closure is contradictory.
   The closure is unique (deductions are forced).  The code does not compute it by a global fixed
   point but by a queue (`DeriveQ` below, a transcription of derived_table): rows are scanned when
   they are queued — the row of the new edge and the head of every deduction.  Every relator
   instance that a new entry can complete passes through the row where the entry was made, EXCEPT
   an instance of a relator of length one, which sits on a single row: a fresh row's loop under a
   trivial generator is deduced only when that row is scanned later.  Hence the lemma checked by
   MC_LowIndex at every node and candidate edge: DeriveQ = Derive when no relator has length one
   (`QueueIsClosure`), and with such relators the lazily closed tree (`ChildrenQ`) still has valid
   leaves and reaches every class (configuration U).  Children of a node: the first undefined
   entry (k, g) joined to every row k..n-1 and to one new row (bounded by the index bound), kept
   if derivable; an implementation may prune further only by canonicity.  Leaves are complete
   tables. *)
EXTENDS Action, FreeGroup
Fail == [gens |-> 0, img |-> <<>>]
Undef == -1
Entry(T, r, g) == T.img[r + 1][Pos(T.gens, g)]
SetEntry(T, r, g, x) == [T EXCEPT !.img[r + 1][Pos(T.gens, g)] = x]
Join(T, a, b, g) == SetEntry(SetEntry(T, a, g, b), b, -g, a)
AddRow(T) == [T EXCEPT !.img = Append(@, [j \in 1..(2 * T.gens) |-> Undef])]
\* relators with all rotations and inverses (the code's expanded relator set)
ExpandedRels(rels) == UNION {RelPerms(rels[j]) : j \in 1..Len(rels)} \ {<<>>}
\* scan w forward from r as far as defined: <<row reached, letters consumed>>
RECURSIVE ScanF(_,_,_,_)
ScanF(T, w, r, i) == IF i > Len(w) THEN <<r, i - 1>> ELSE
   LET x == Entry(T, r, w[i]) IN IF x = Undef THEN <<r, i - 1>> ELSE ScanF(T, w, x, i + 1)
\* scan backward (inverse letters from the end) at most lim letters
RECURSIVE ScanB(_,_,_,_,_)
ScanB(T, w, r, j, lim) == IF j >= lim THEN <<r, j>> ELSE
   LET x == Entry(T, r, -w[Len(w) - j]) IN IF x = Undef THEN <<r, j>> ELSE ScanB(T, w, x, j + 1, lim)
Scan(T, w, r) == LET f == ScanF(T, w, r, 1)  b == ScanB(T, w, r, 0, Len(w) - f[2]) IN
   [head |-> f[1], tail |-> b[1], gap |-> Len(w) - f[2] - b[2], letter |-> IF f[2] < Len(w) THEN w[f[2] + 1] ELSE 0]
Pending(T, X) == {p \in X \X RowsOf(T) : Scan(T, p[1], p[2]).gap = 1}
Contradictions(T, X) == {p \in X \X RowsOf(T) : LET s == Scan(T, p[1], p[2]) IN s.gap = 0 /\ s.head # s.tail}
ClosedTable(T, X) == Pending(T, X) = {} /\ Contradictions(T, X) = {}
\* deductive closure (least fixed point); a deduction may itself be contradictory with an existing entry
RECURSIVE Close(_,_)
Close(T, X) ==
   IF Contradictions(T, X) # {} THEN Fail ELSE
   LET P == Pending(T, X) IN
   IF P = {} THEN T ELSE
   LET p == CHOOSE q \in P : TRUE
       s == Scan(T, p[1], p[2])
   IN IF Entry(T, s.head, s.letter) # Undef \/ Entry(T, s.tail, -s.letter) # Undef THEN Fail
      ELSE Close(Join(T, s.head, s.tail, s.letter), X)
Derive(T, X, from, to, g) ==
   IF Entry(T, from, g) # Undef \/ Entry(T, to, -g) # Undef THEN Fail
   ELSE Close(Join(T, from, to, g), X)
\* the code's queue discipline (derived_table): scan every expanded relator both ways at the queued row; a gap of one
\* letter is filled at once and its head queued; a closed instance on two different rows is a contradiction
RECURSIVE QScan(_,_,_,_,_)
QScan(T, xs, i, row, q) == IF i > Len(xs) THEN <<T, q>> ELSE
   LET s == Scan(T, xs[i], row) IN
   IF s.gap = 1
   THEN IF Entry(T, s.head, s.letter) # Undef \/ Entry(T, s.tail, -s.letter) # Undef THEN <<Fail, q>>
        ELSE QScan(Join(T, s.head, s.tail, s.letter), xs, i + 1, row, Append(q, s.head))
   ELSE IF s.gap = 0 /\ s.head # s.tail THEN <<Fail, q>>
   ELSE QScan(T, xs, i + 1, row, q)
RECURSIVE QLoop(_,_,_)
QLoop(T, xs, q) == IF T = Fail THEN Fail ELSE IF q = <<>> THEN T ELSE
   LET r == QScan(T, xs, 1, Head(q), Tail(q)) IN QLoop(r[1], xs, r[2])
DeriveQ(T, X, from, to, g) ==
   IF Entry(T, from, g) # Undef \/ Entry(T, to, -g) # Undef THEN Fail
   ELSE QLoop(Join(T, from, to, g), SetToSortSeq(X, WLess), <<from>>)      \* the code keeps the expanded relators in a BTreeSet: the library's word order
HasUnitRelator(X) == \E w \in X : Len(w) = 1
\* A is defined wherever B is and agrees with it there
ExtendsT(A, B) == /\ A.gens = B.gens /\ NRows(A) = NRows(B)
                  /\ \A r \in RowsOf(B), j \in 1..(2 * B.gens) : B.img[r + 1][j] # Undef => A.img[r + 1][j] = B.img[r + 1][j]
\* first undefined entry in row-major order, generators 1..k then -1..-k
GenOrder(T) == [j \in 1..(2 * T.gens) |-> IF j <= T.gens THEN j ELSE T.gens - j]
FirstFree(T) == LET cand == {p \in RowsOf(T) \X (1..(2 * T.gens)) : T.img[p[1] + 1][p[2]] = Undef} IN
   IF cand = {} THEN <<-1, 0>> ELSE
   LET best == CHOOSE p \in cand : \A q \in cand : p[1] < q[1] \/ (p[1] = q[1] /\ p[2] <= q[2])
   IN <<best[1], GenOrder(T)[best[2]]>>
CompleteT(T) == FirstFree(T)[1] = -1
Root(k) == [gens |-> k, img |-> << [j \in 1..(2 * k) |-> Undef] >>]
\* all derivable children (before canonicity pruning)
ChildrenAll(T, X, maxRows) ==
   LET ff == FirstFree(T) IN IF ff[1] = -1 THEN {} ELSE
   LET limit == IF NRows(T) + 1 < maxRows THEN NRows(T) + 1 ELSE maxRows
       cand(pos) == IF pos = NRows(T) THEN Derive(AddRow(T), X, ff[1], pos, ff[2]) ELSE Derive(T, X, ff[1], pos, ff[2])
   IN {cand(pos) : pos \in ff[1]..(limit - 1)} \ {Fail}
\* the same with the code's lazy closure
ChildrenQ(T, X, maxRows) ==
   LET ff == FirstFree(T) IN IF ff[1] = -1 THEN {} ELSE
   LET limit == IF NRows(T) + 1 < maxRows THEN NRows(T) + 1 ELSE maxRows
       cand(pos) == IF pos = NRows(T) THEN DeriveQ(AddRow(T), X, ff[1], pos, ff[2]) ELSE DeriveQ(T, X, ff[1], pos, ff[2])
   IN {cand(pos) : pos \in ff[1]..(limit - 1)} \ {Fail}
=============================================================================

------------------------------- MODULE Action -------------------------------
(* Coset tables as permutation actions, permutation models of finite groups, and conjugacy
   classes of subgroups by brute-force homomorphisms into symmetric groups.

   A coset table is [gens |-> k, img |-> <<row_0, ..., row_{n-1}>>] where row_r lists the image
   of row r (rows are numbered from 0) under the generators 1..k and then their inverses
   -1..-k; -1 marks an undefined entry.  A permutation model of a group on generators 1..k is
   a sequence act of k permutations of 1..N (act[g][x] = image of point x under generator g). *)
EXTENDS Integers, Sequences, FiniteSets, FiniteSetsExt, SequencesExt, TLC

(* ---------------------------------------------------------------- coset tables *)
NRows(T) == Len(T.img)
RowsOf(T) == 0..(NRows(T) - 1)
GensOf(T) == (1..T.gens) \cup {-g : g \in 1..T.gens}
Pos(k, g) == IF g > 0 THEN g ELSE k - g
Img(T, r, g) == T.img[r + 1][Pos(T.gens, g)]
TableShapeOK(T) == /\ NRows(T) >= 1
                   /\ \A r \in RowsOf(T) : Len(T.img[r + 1]) = 2 * T.gens
CompleteTable(T) == \A r \in RowsOf(T), g \in GensOf(T) : Img(T, r, g) \in RowsOf(T)
\* every generator acts as a permutation whose inverse is the action of the inverse generator
IsPermAction(T) == /\ TableShapeOK(T) /\ CompleteTable(T)
                   /\ \A r \in RowsOf(T), g \in GensOf(T) : Img(T, Img(T, r, g), -g) = r
RECURSIVE ReachRows(_,_,_)
ReachRows(T, frontier, seen) == IF frontier = {} THEN seen ELSE
   LET nxt == {Img(T, r, g) : r \in frontier, g \in GensOf(T)} \ seen IN ReachRows(T, nxt, seen \cup nxt)
Transitive(T) == ReachRows(T, {0}, {0}) = RowsOf(T)
RECURSIVE TraceT(_,_,_)
TraceT(T, r, w) == IF w = <<>> THEN r ELSE TraceT(T, Img(T, r, Head(w)), Tail(w))
WordOK(T, w) == \A k \in 1..Len(w) : w[k] \in GensOf(T)
SatisfiesRelators(T, rels) == \A k \in 1..Len(rels) : \A r \in RowsOf(T) : TraceT(T, r, rels[k]) = r
FixesBase(T, subs) == \A k \in 1..Len(subs) : TraceT(T, 0, subs[k]) = 0
FixesAllRows(T, w) == \A r \in RowsOf(T) : TraceT(T, r, w) = r

\* the unique candidate for an equivalence of actions Ta -> Tb sending row 0 to row x, built by
\* walking a spanning tree of Ta; Equivalent iff it is a bijection intertwining all generators
RECURSIVE MapFrom(_,_,_,_)
MapFrom(Ta, Tb, frontier, phi) == IF frontier = {} THEN phi ELSE
   LET cand == {p \in frontier \X GensOf(Ta) : Img(Ta, p[1], p[2]) \notin DOMAIN phi}
       tgt == {Img(Ta, p[1], p[2]) : p \in cand}
       pick(t) == CHOOSE p \in cand : Img(Ta, p[1], p[2]) = t
       phi2 == TLCEval([t \in (DOMAIN phi) \cup tgt |-> IF t \in DOMAIN phi THEN phi[t]
                                                         ELSE LET p == pick(t) IN Img(Tb, phi[p[1]], p[2])])
   IN MapFrom(Ta, Tb, tgt, phi2)
IsEquivalence(Ta, Tb, phi) == /\ DOMAIN phi = RowsOf(Ta) /\ {phi[r] : r \in RowsOf(Ta)} = RowsOf(Tb)
                              /\ \A r \in RowsOf(Ta), g \in GensOf(Ta) : phi[Img(Ta, r, g)] = Img(Tb, phi[r], g)
\* pointed: same subgroup (stabiliser of row 0)
EquivalentPointed(Ta, Tb) == /\ Ta.gens = Tb.gens /\ NRows(Ta) = NRows(Tb)
                             /\ IsEquivalence(Ta, Tb, MapFrom(Ta, Tb, {0}, [t \in {0} |-> 0]))
\* unpointed: conjugate subgroups
EquivalentActions(Ta, Tb) == /\ Ta.gens = Tb.gens /\ NRows(Ta) = NRows(Tb)
                             /\ \E x \in RowsOf(Tb) : IsEquivalence(Ta, Tb, MapFrom(Ta, Tb, {0}, [t \in {0} |-> x]))

\* canonical form of a transitive action up to equivalence (unpointed): rows renumbered breadth-first
\* from a base row, generators taken in the order 1..k,-1..-k; minimised over the base row
GenSeq(T) == [j \in 1..(2 * T.gens) |-> IF j <= T.gens THEN j ELSE T.gens - j]
RECURSIVE BfsAdd(_,_,_,_)
BfsAdd(T, order, r, j) == IF j > 2 * T.gens THEN order ELSE
   LET t == Img(T, r, GenSeq(T)[j]) IN BfsAdd(T, IF t \in ToSet(order) THEN order ELSE Append(order, t), r, j + 1)
RECURSIVE BfsRows(_,_,_)
BfsRows(T, order, k) == IF k > Len(order) THEN order ELSE BfsRows(T, BfsAdd(T, order, order[k], 1), k + 1)
RelabelFrom(T, x) == LET order == BfsRows(T, <<x>>, 1)
                         pos == TLCEval([r \in RowsOf(T) |-> CHOOSE k \in 1..Len(order) : order[k] = r])
                     IN FlattenSeq([k \in 1..Len(order) |-> [j \in 1..(2 * T.gens) |-> pos[Img(T, order[k], GenSeq(T)[j])]]])
RECURSIVE LexLess(_,_)
LexLess(a, b) == IF a = <<>> THEN FALSE ELSE IF Head(a) # Head(b) THEN Head(a) < Head(b) ELSE LexLess(Tail(a), Tail(b))
CanonAct(T) == LET cands == {RelabelFrom(T, x) : x \in RowsOf(T)} IN CHOOSE c \in cands : \A d \in cands : ~LexLess(d, c)

(* ---------------------------------------------------------------- permutations *)
IsPermOf(p, n) == DOMAIN p = 1..n /\ {p[x] : x \in 1..n} = 1..n
IdP(n) == [x \in 1..n |-> x]
CompP(p, q) == [x \in DOMAIN p |-> q[p[x]]]                      \* first p then q
InvP(p) == [y \in DOMAIN p |-> CHOOSE x \in DOMAIN p : p[x] = y]
LetterP(act, g) == IF g > 0 THEN act[g] ELSE InvP(act[-g])
RECURSIVE WordP(_,_,_)
WordP(act, n, w) == IF w = <<>> THEN IdP(n) ELSE CompP(LetterP(act, Head(w)), WordP(act, n, Tail(w)))
\* closure of the identity under right multiplication by the given permutations
RECURSIVE Closure_(_,_,_)
Closure_(gens, frontier, seen) == IF frontier = {} THEN seen ELSE
   LET nxt == {CompP(x, g) : x \in frontier, g \in gens} \ seen IN Closure_(gens, nxt, seen \cup nxt)
GroupGeneratedBy(gens, n) == Closure_(gens, {IdP(n)}, {IdP(n)})
ModelPoints(act) == Len(act[1])
ModelOK(act, k, rels) == /\ Len(act) = k /\ \A g \in 1..k : IsPermOf(act[g], ModelPoints(act))
                         /\ \A j \in 1..Len(rels) : WordP(act, ModelPoints(act), rels[j]) = IdP(ModelPoints(act))
ModelGroup(act) == GroupGeneratedBy({act[g] : g \in 1..Len(act)}, ModelPoints(act))
SubgroupOf(act, words) == GroupGeneratedBy({WordP(act, ModelPoints(act), words[j]) : j \in 1..Len(words)}, ModelPoints(act))
\* the permutation group generated by the action of a (complete) coset table on its rows
TablePerm(T, g) == [x \in 1..NRows(T) |-> Img(T, x - 1, g) + 1]
TableGroup(T) == GroupGeneratedBy({TablePerm(T, g) : g \in 1..T.gens}, NRows(T))
TableAsModel(T) == [g \in 1..T.gens |-> TablePerm(T, g)]

(* ---------------------------------------------------------------- product actions *)
\* the orbit of (0,0) in the product action, as a set of pairs, and "out is this orbit with base (0,0)"
RECURSIVE PairOrbit(_,_,_,_)
PairOrbit(Ta, Tb, frontier, seen) == IF frontier = {} THEN seen ELSE
   LET nxt == {<<Img(Ta, p[1], g), Img(Tb, p[2], g)>> : p \in frontier, g \in GensOf(Ta)} \ seen
   IN PairOrbit(Ta, Tb, nxt, seen \cup nxt)
ProductOrbit(Ta, Tb) == PairOrbit(Ta, Tb, {<<0, 0>>}, {<<0, 0>>})

(* ---------------------------------------------------------------- subgroup classes by homomorphisms *)
RECURSIVE PermSeqs(_)
PermSeqs(S) == IF S = {} THEN {<<>>} ELSE UNION {{<<x>> \o p : p \in PermSeqs(S \ {x})} : x \in S}
PermsOf(k) == PermSeqs(1..k)
RECURSIVE TraceH(_,_,_)
TraceH(h, w, x) == IF w = <<>> THEN x ELSE TraceH(h, Tail(w), LetterP(h, Head(w))[x])
Kills(h, k, w) == \A x \in 1..k : TraceH(h, w, x) = x
RECURSIVE OrbitH(_,_,_,_)
OrbitH(h, n, frontier, seen) == IF frontier = {} THEN seen ELSE
   LET nxt == {h[g][x] : g \in 1..n, x \in frontier} \cup {InvP(h[g])[x] : g \in 1..n, x \in frontier} IN
   OrbitH(h, n, nxt \ seen, seen \cup nxt)
\* transitive homomorphisms of <1..n | rels> into Sym(k)
TransHoms(n, k, rels) == {h \in [1..n -> PermsOf(k)] : (\A j \in 1..Len(rels) : Kills(h, k, rels[j])) /\ OrbitH(h, n, {1}, {1}) = 1..k}
ConjH(h, t) == [g \in DOMAIN h |-> CompP(CompP(InvP(t), h[g]), t)]
RECURSIVE CountH(_,_,_)
CountH(k, rest, c) == IF rest = {} THEN c ELSE
   LET h == CHOOSE x \in rest : TRUE IN CountH(k, rest \ {ConjH(h, t) : t \in PermsOf(k)}, c + 1)
\* number of conjugacy classes of subgroups of index exactly k
NumSubgroupClasses(n, k, rels) == IF n = 0 THEN (IF k = 1 THEN 1 ELSE 0) ELSE CountH(k, TransHoms(n, k, rels), 0)
=============================================================================

------------------------------- MODULE ToddCoxeter -------------------------------
(* Todd-Coxeter coset enumeration as a GENERAL machine: the state is a partial coset table over
   rows 0..nrows-1 together with the coincidence classes found so far (cls: row -> least row
   of its class); the actions are "define a new coset at the first free entry", "scan any
   relator from any live row" and "scan a subgroup generator from the base row", in any order
   and any number, with the outcomes deduction (gap of one letter) and coincidence (gap zero,
   different ends; merged by the queue loop of the code).  The ghost variable labels every
   row with the TRUE coset it denotes in a known permutation model of G/H (a constant), which
   turns soundness into a state invariant: rows are never identified, nor entries deduced,
   unless the model justifies it.  `Return` is enabled only in a closed state — complete, every
   relator closes at every live row, every subgroup generator closes at the base row — and then
   the number of live rows is exactly [G:H] and row 0 is the base coset.  TLC explores ALL scan
   strategies, so whatever schedule an implementation follows is sound; what remains for the
   code is "only legal steps" and "closed at return", which Trace_C11h checks on hooked runs. *)
EXTENDS Integers, Sequences, FiniteSets, TLC
CONSTANTS NG, Rels, Subs, MaxRows, TrueN, TrueAct   \* TrueAct[c][g] for c in 1..TrueN, g in Gens ; base coset 1
Gens == (1..NG) \cup {-g : g \in 1..NG}
Rows == 0..(MaxRows-1)
VARIABLES table, cls, nrows, ghost, done
vars == <<table, cls, nrows, ghost, done>>

Inv(w) == [k \in 1..Len(w) |-> -w[Len(w)+1-k]]
Rot(w, i) == [k \in 1..Len(w) |-> w[((k-1+i) % Len(w)) + 1]]
Expanded == UNION {UNION {{Rot(w,i), Inv(Rot(w,i))} : i \in 0..(Len(w)-1)} : w \in Rels} \* Len(w) >= 1 assumed

Get(t, c, r, g) == IF t[r][g] = -1 THEN -1 ELSE c[t[r][g]]

RECURSIVE Fwd(_,_,_,_,_)
Fwd(t, c, w, r, i) == IF i > Len(w) THEN <<r, i-1>> ELSE
    LET x == Get(t, c, r, w[i]) IN IF x = -1 THEN <<r, i-1>> ELSE Fwd(t, c, w, x, i+1)
RECURSIVE Bwd(_,_,_,_,_,_)
Bwd(t, c, w, r, j, lim) == IF j >= lim THEN <<r, j>> ELSE
    LET x == Get(t, c, r, -w[Len(w)-j]) IN IF x = -1 THEN <<r, j>> ELSE Bwd(t, c, w, x, j+1, lim)

\* merge closure: queue of pairs
RECURSIVE Merge(_,_,_)
Merge(t, c, q) == IF q = <<>> THEN <<t, c>> ELSE
    LET a == c[Head(q)[1]]  b == c[Head(q)[2]] IN
    IF a = b THEN Merge(t, c, Tail(q)) ELSE
    LET keep == IF a < b THEN a ELSE b
        drop == IF a < b THEN b ELSE a
        \* copy entries of drop into keep where keep undefined; queue conflicts
        newq == [g \in Gens |-> IF Get(t,c,keep,g) # -1 /\ Get(t,c,drop,g) # -1 THEN <<Get(t,c,keep,g), Get(t,c,drop,g)>> ELSE <<0,0>>]
        t2 == [t EXCEPT ![keep] = [g \in Gens |-> IF t[keep][g] = -1 THEN t[drop][g] ELSE t[keep][g]]]
        c2 == [r \in Rows |-> IF c[r] = drop THEN keep ELSE c[r]]
        extra == SelectSeq([k \in 1..Cardinality(Gens) |-> newq[CHOOSE g \in Gens : Cardinality({h \in Gens : h < g}) = k-1]], LAMBDA p : p # <<0,0>>)
    IN Merge(t2, c2, Tail(q) \o extra)

Live == {r \in 0..(nrows-1) : cls[r] = r}
FirstFree == LET cand == {<<r,g>> \in Live \X Gens : table[r][g] = -1} IN
   IF cand = {} THEN <<-1,0>> ELSE
   LET r0 == CHOOSE r \in {p[1] : p \in cand} : \A p \in cand : r <= p[1]
       ord(g) == IF g > 0 THEN g ELSE NG - g
       g0 == CHOOSE g \in {p[2] : p \in {q \in cand : q[1] = r0}} : \A p \in cand : p[1] = r0 => ord(g) <= ord(p[2])
   IN <<r0, g0>>

Init == /\ table = [r \in Rows |-> [g \in Gens |-> -1]]
        /\ cls = [r \in Rows |-> r]
        /\ nrows = 1
        /\ ghost = [r \in Rows |-> IF r = 0 THEN 1 ELSE 0]
        /\ done = FALSE

DefineAt(r, g) == /\ ~done /\ nrows < MaxRows
                  /\ r \in Live /\ table[r][g] = -1
                  /\ LET n == nrows IN
                     /\ table' = [table EXCEPT ![r][g] = n, ![n][-g] = r]
                     /\ ghost' = [ghost EXCEPT ![n] = TrueAct[ghost[r]][g]]
                     /\ nrows' = nrows + 1
                  /\ UNCHANGED <<cls, done>>
Define == FirstFree[1] # -1 /\ DefineAt(FirstFree[1], FirstFree[2])

ScanAt(w, r) ==
   LET f == Fwd(table, cls, w, r, 1) head == f[1] i == f[2]
       b == Bwd(table, cls, w, r, 0, Len(w) - i) tail == b[1] j == b[2]
       gap == Len(w) - i - j
   IN /\ ~done
      /\ \/ /\ gap = 1
            /\ table' = [table EXCEPT ![head][w[i+1]] = tail, ![tail][-w[i+1]] = head]
            /\ UNCHANGED <<cls, nrows, ghost, done>>
         \/ /\ gap = 0 /\ head # tail
            /\ LET m == Merge(table, cls, <<<<head, tail>>>>) IN table' = m[1] /\ cls' = m[2]
            /\ UNCHANGED <<nrows, ghost, done>>

Scan == \/ \E w \in Expanded, r \in Live : ScanAt(w, r)
        \/ \E w \in Subs : ScanAt(w, cls[0])

Closed == /\ FirstFree[1] = -1
          /\ \A w \in Expanded, r \in Live : Fwd(table, cls, w, r, 1) = <<r, Len(w)>>
          /\ \A w \in Subs : Fwd(table, cls, w, cls[0], 1) = <<cls[0], Len(w)>>
Return == ~done /\ Closed /\ done' = TRUE /\ UNCHANGED <<table, cls, nrows, ghost>>

Next == Define \/ Scan \/ Return
Spec == Init /\ [][Next]_vars

Sound == /\ \A r \in 0..(nrows-1) : ghost[r] = ghost[cls[r]]
         /\ \A r \in Live, g \in Gens : table[r][g] # -1 => ghost[cls[table[r][g]]] = TrueAct[ghost[r]][g]
InverseConsistent == \A r \in Live, g \in Gens : table[r][g] # -1 => Get(table, cls, cls[table[r][g]], -g) = r
ReturnOK == done => /\ Cardinality(Live) = TrueN /\ cls[0] = 0
=============================================================================

---------------------------- MODULE Words ----------------------------
(* A register file of free words driven by the public operations of FreeWord, one action per
   operation and operand form (the owned/borrowed variants of `*` and the in-place `*=` are
   different code paths).  The invariant says every register always holds a reduced word, so
   equality of registers is equality in the free group. *)
EXTENDS FreeGroup, TLC
CONSTANTS NR,        \* number of registers
          NG,        \* number of generators
          MaxLen,    \* state constraint: explore only registers up to this length
          RawSet     \* unreduced letter sequences offered to `new`
Regs == 1..NR
Letters == (1..NG) \cup {-g : g \in 1..NG}
VARIABLES reg, last
wvars == <<reg, last>>
WInit == reg = [r \in Regs |-> <<>>] /\ last = [op |-> "init"]
Set(r, w, o) == reg' = [reg EXCEPT ![r] = w] /\ last' = o
DoNew(r, x)          == Set(r, Reduce(x), [op |-> "new", r |-> r, raw |-> x])
DoMul(r, s, t, f) == Set(r, Mul(reg[s], reg[t]), [op |-> "mul", r |-> r, s |-> s, t |-> t, form |-> f])
DoMulLetter(r, s, g, f) == Set(r, Mul(reg[s], <<g>>), [op |-> "mul_letter", r |-> r, s |-> s, g |-> g, form |-> f])
DoMulAssign(r, s)    == Set(r, Mul(reg[r], reg[s]), [op |-> "mul_assign", r |-> r, s |-> s])
DoInverse(r, s)      == Set(r, Inv(reg[s]), [op |-> "inverse", r |-> r, s |-> s])
DoRaisedTo(r, s, m)  == Set(r, Pow(reg[s], m), [op |-> "raised_to", r |-> r, s |-> s, m |-> m])
DoCommutator(r, s, t) == Set(r, Comm(reg[s], reg[t]), [op |-> "commutator", r |-> r, s |-> s, t |-> t])
DoRotated(r, s, i)   == Set(r, Rot(reg[s], i), [op |-> "rotated", r |-> r, s |-> s, i |-> i])
WNext == \/ \E r \in Regs, x \in RawSet : DoNew(r, x)
         \/ \E r, s, t \in Regs, f \in {"rr", "rv", "vr", "vv"} : DoMul(r, s, t, f)
         \/ \E r, s \in Regs, g \in Letters, f \in {"r", "v"} : DoMulLetter(r, s, g, f)
         \/ \E r, s \in Regs : DoMulAssign(r, s)
         \/ \E r, s \in Regs : DoInverse(r, s)
         \/ \E r, s \in Regs, m \in -2..3 : DoRaisedTo(r, s, m)
         \/ \E r, s, t \in Regs : DoCommutator(r, s, t)
         \/ \E r, s \in Regs, i \in -2..(MaxLen+1) : DoRotated(r, s, i)
WSpec == WInit /\ [][WNext]_wvars
Bounded == \A r \in Regs : Len(reg[r]) <= MaxLen
AllReduced == \A r \in Regs : Reduced(reg[r])
=============================================================================

---------------------------- MODULE Echelon ----------------------------
(* The row-echelon elimination behind rank / null space / solve / determinant / inverse
   (RowEchelonVecMatrix::new and RowEchelonMatrix::new in src/geometry/{vec_matrix,matrix}.rs with the
   Entry implementations of geometry/traits.rs and geometry/modular_solver.rs) as a machine.

   State: u (the matrix being reduced), s (the multiplier, starts as the identity), row (number of pivots
   found), col (number of columns processed), swaps, cols (0-based pivot column per pivot row, nr_rows where
   unused — exactly the code's `columns`).  One step processes one column: choose a pivot row among the rows
   >= row with a non-zero entry (ANY such row: the machine is general; the code's three pivot rules are
   `CodePivot`), swap it up, clear the entries below it, one row after the other:
     ring P = 0  (machine integers): the unimodular 2x2 combination built from gcdx, applied to the columns
                 >= col of u and to all columns of s — so that no division is needed;
     ring P > 0  (the field Z/P; the rational backend behaves alike): subtract f times the pivot row.
   What has to hold in every reachable state (checked by MC_Echelon on all small matrices, and on every
   state logged by the real code under the hook):
     Mult    s * M = u                    (the multiplier records the row operations)
     DetS    det s = (-1)^swaps           (every clearing step has determinant +1)
     Shape   the first `col` columns of u are in echelon form with pivots at cols[1..row]
   and the read-outs the library takes from the final state are then correct (`ReadOuts`):
     rank = row; det M = (-1)^swaps * product of the diagonal of u; the rows > row of s span the left
     null space of M; a right-hand side b is solvable iff rows > row of s*b vanish. *)
EXTENDS ZModules, ModArith

RAdd(P, a, b) == IF P = 0 THEN a + b ELSE (a + b) % P
RSub(P, a, b) == IF P = 0 THEN a - b ELSE Mod(a - b, P)
RMul(P, a, b) == IF P = 0 THEN a * b ELSE (a * b) % P
IdMat(n) == [i \in 1..n |-> [j \in 1..n |-> IF i = j THEN 1 ELSE 0]]
RowSwap(A, a, b) == [r \in 1..Len(A) |-> IF r = a THEN A[b] ELSE IF r = b THEN A[a] ELSE A[r]]
RDot(P, x, A, j) == LET RECURSIVE S(_) S(k) == IF k = 0 THEN 0 ELSE RAdd(P, S(k-1), RMul(P, x[k], A[k][j])) IN S(Len(x))
RMatMul(P, A, B) == [i \in 1..Len(A) |-> [j \in 1..NC(B) |-> RDot(P, A[i], B, j)]]

EInit(M) == [u |-> M, s |-> IdMat(NR(M)), row |-> 0, col |-> 0, swaps |-> 0, cols |-> [k \in 1..NR(M) |-> NR(M)]]
EDone(M, st) == st.col >= NC(M) \/ st.row >= NR(M)
\* rows that may serve as pivot for the column about to be processed (1-based row numbers)
Candidates(st) == {r \in (st.row + 1)..Len(st.u) : st.u[r][st.col + 1] # 0}

\* clear u[r1][c] with the pivot row r2 (r2 < r1); returns <<u, s>>
ClearPair(P, u, s, c, r1, r2) ==
   IF P = 0
   THEN LET g == Gcdx(u[r2][c], u[r1][c])
            r == g[2]  ss == g[3]  t == g[4]  uu == g[5]
            det == r * uu - ss * t
        IN <<[u EXCEPT ![r1] = [k \in 1..Len(u[r1]) |-> IF k >= c THEN u[r2][k] * t + u[r1][k] * uu ELSE u[r1][k]],
                       ![r2] = [k \in 1..Len(u[r2]) |-> IF k >= c THEN det * (u[r2][k] * r + u[r1][k] * ss) ELSE u[r2][k]]],
             [s EXCEPT ![r1] = [k \in 1..Len(s[r1]) |-> s[r2][k] * t + s[r1][k] * uu],
                       ![r2] = [k \in 1..Len(s[r2]) |-> det * (s[r2][k] * r + s[r1][k] * ss)]]>>
   ELSE LET f == RMul(P, u[r1][c], InvMod(u[r2][c], P))
        IN <<[u EXCEPT ![r1] = [k \in 1..Len(u[r1]) |-> IF k = c THEN 0 ELSE IF k > c THEN RSub(P, u[r1][k], RMul(P, u[r2][k], f)) ELSE u[r1][k]]],
             [s EXCEPT ![r1] = [k \in 1..Len(s[r1]) |-> RSub(P, s[r1][k], RMul(P, s[r2][k], f))]]>>
RECURSIVE ClearBelow(_,_,_,_,_,_)
ClearBelow(P, u, s, c, piv, r) == IF r > Len(u) THEN <<u, s>>
                                  ELSE LET n == ClearPair(P, u, s, c, r, piv) IN ClearBelow(P, n[1], n[2], c, piv, r + 1)
\* one column step with pivot row pr (pr = 0: the column has no candidate)
EStep(P, st, pr) ==
   IF pr = 0 THEN [st EXCEPT !.col = @ + 1]
   ELSE LET p == st.row + 1  c == st.col + 1
            u1 == RowSwap(st.u, pr, p)  s1 == RowSwap(st.s, pr, p)
            cl == ClearBelow(P, u1, s1, c, p, p + 1)
        IN [u |-> cl[1], s |-> cl[2], row |-> p, col |-> c, swaps |-> IF pr # p THEN st.swaps + 1 ELSE st.swaps,
            cols |-> [st.cols EXCEPT ![p] = st.col]]
PivotChoices(st) == IF Candidates(st) = {} THEN {0} ELSE Candidates(st)

\* the code's pivot rules: "min" least absolute value, first among equals (i64); "max" greatest absolute value, first
\* among equals (BigRational, f64); "first" first non-zero (Z/p)
CodePivot(rule, st) == LET C == Candidates(st)  c == st.col + 1 IN
   IF C = {} THEN 0
   ELSE IF rule = "first" THEN CHOOSE r \in C : \A q \in C : r <= q
   ELSE LET best == IF rule = "min" THEN {r \in C : \A q \in C : Abs(st.u[r][c]) <= Abs(st.u[q][c])}
                                    ELSE {r \in C : \A q \in C : Abs(st.u[r][c]) >= Abs(st.u[q][c])}
            \* "max" starts from row0 even when its entry is zero and replaces it only by a strictly greater value
        IN CHOOSE r \in best : \A q \in best : r <= q

(* ---------------- invariants ---------------- *)
Mult(P, M, st) == RMatMul(P, st.s, IF P = 0 THEN M ELSE MatMod(M, P)) = st.u
SignOf(k) == IF k % 2 = 0 THEN 1 ELSE -1
DetS(P, st) == IF P = 0 THEN Det(st.s) = SignOf(st.swaps) ELSE DetMod(st.s, P) = Mod(SignOf(st.swaps), P)
\* number of pivots among the first j columns (0-based pivot columns < j)
PivotsBefore(st, j) == Cardinality({k \in 1..st.row : st.cols[k] < j})
Shape(M, st) ==
   /\ st.row \in 0..NR(M) /\ st.col \in 0..NC(M) /\ st.row <= st.col
   /\ \A k \in 1..st.row : st.cols[k] \in 0..(st.col - 1) /\ st.u[k][st.cols[k] + 1] # 0
   /\ \A k \in 1..(st.row - 1) : st.cols[k] < st.cols[k + 1]
   /\ \A k \in (st.row + 1)..NR(M) : st.cols[k] = NR(M)
   /\ \A j \in 1..st.col : \A i \in 1..NR(M) : i > PivotsBefore(st, j) => st.u[i][j] = 0
EInv(P, M, st) == Mult(P, M, st) /\ DetS(P, st) /\ Shape(M, st)

(* ---------------- read-outs of a final state, and what they must be ---------------- *)
DiagProd(P, st) == LET RECURSIVE Pr(_) Pr(k) == IF k = 0 THEN 1 ELSE RMul(P, Pr(k-1), st.u[k][k]) IN Pr(Len(st.u))
DetReadOut(P, st) == IF st.swaps % 2 = 0 THEN DiagProd(P, st) ELSE RSub(P, 0, DiagProd(P, st))
RankOracle(P, M) == IF P = 0 THEN RankZ(M) ELSE RankMod(MatMod(M, P), P)
DetOracle(P, M) == IF P = 0 THEN Det(M) ELSE DetMod(MatMod(M, P), P)
ReadOuts(P, M, st) == EDone(M, st) =>
   /\ st.row = RankOracle(P, M)                                                  \* rank()
   /\ NR(M) = NC(M) => DetReadOut(P, st) = DetOracle(P, M)                        \* determinant()
   /\ \A i \in (st.row + 1)..NR(M) : \A j \in 1..NC(M) : st.u[i][j] = 0          \* rows > rank of s annihilate M from the left:
                                                                                 \* null_space() of the transpose
   /\ \A i \in 1..st.row : \A j \in 1..st.cols[i] : st.u[i][j] = 0                \* back substitution in solve() divides by the
                                                                                 \* first non-zero entry of each pivot row
(* The machine itself (VARIABLES em, est; Next = one EStep with any pivot row of PivotChoices) is declared in
   spec/mc/MC_Echelon.tla so that trace specifications can EXTEND this module without inheriting variables. *)
=============================================================================

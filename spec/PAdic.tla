------------------------------- MODULE PAdic -------------------------------
(* The p-adic (Dixon) solver of src/geometry/modular_solver.rs as a machine.

   Given an integer system A X = B with A non-singular modulo the prime P and C = A^-1 mod P:
       x  = C * b mod P                  (next p-adic digit, entries in 0..P-1)
       s' = s + x * pk     pk' = pk * P     b' = (b - A x) / P        (the division is exact)
   after `Needed` steps every entry of s is turned into a rational by Wang's rational reconstruction.
   What has to hold in every reachable state (MC_PAdic: all small systems, P = 5, 7):
       Lift    A s + pk b = B          (so A s = B modulo pk)
       DigitsInRange   0 <= s < pk
       Exact   b - A x is divisible by P  (the next step is well defined)
   and the theorem the library relies on:
       Result  once pk >= phi^2 * (product of the squared norms of the columns of [A | largest column of B]
               without the smallest), the reconstructed rationals ARE the solution A^-1 B
               (compared with Cramer's rule by cross-multiplication; phi^2 = 2.618...). *)
EXTENDS ZModules, ModArith
ZeroMat(n, m) == [i \in 1..n |-> [j \in 1..m |-> 0]]
MatMulZ(A, X) == [i \in 1..Len(A) |-> [j \in 1..NC(X) |->
                    LET RECURSIVE S(_) S(k) == IF k = 0 THEN 0 ELSE S(k-1) + A[i][k] * X[k][j] IN S(NC(A))]]
Without(n, i) == [k \in 1..(n-1) |-> IF k < i THEN k ELSE k + 1]
\* adjugate: Adj * A = det(A) * I
Adjugate(A) == LET n == Len(A) IN
   [i \in 1..n |-> [j \in 1..n |-> (IF (i + j) % 2 = 0 THEN 1 ELSE -1) * DetSub(A, Without(n, j), Without(n, i))]]
InverseMod(A, P) == LET d == InvMod(Mod(Det(A), P), P)  adj == Adjugate(A) IN
   [i \in 1..Len(A) |-> [j \in 1..Len(A) |-> (Mod(adj[i][j], P) * d) % P]]
NonSingularMod(A, P) == Mod(Det(A), P) # 0

PInit(A, B) == [k |-> 0, s |-> ZeroMat(Len(B), NC(B)), pk |-> 1, b |-> B]
Digit(P, C, b) == LET bm == MatMod(b, P)  x == MatMulZ(C, bm) IN MatMod(x, P)
Residual(A, b, x) == LET ax == MatMulZ(A, x) IN [i \in 1..Len(b) |-> [j \in 1..NC(b) |-> b[i][j] - ax[i][j]]]
Exact(P, A, C, st) == LET r == Residual(A, st.b, Digit(P, C, st.b)) IN \A i \in 1..Len(r) : \A j \in 1..NC(r) : r[i][j] % P = 0
PStep(P, A, C, st) == LET x == Digit(P, C, st.b)  r == Residual(A, st.b, x) IN
   [k |-> st.k + 1,
    s |-> [i \in 1..Len(x) |-> [j \in 1..NC(x) |-> st.s[i][j] + x[i][j] * st.pk]],
    pk |-> st.pk * P,
    b |-> [i \in 1..Len(r) |-> [j \in 1..NC(r) |-> r[i][j] \div P]]]
Lift(A, B, st) == LET as == MatMulZ(A, st.s) IN \A i \in 1..Len(B) : \A j \in 1..NC(B) : as[i][j] + st.pk * st.b[i][j] = B[i][j]
DigitsInRange(st) == \A i \in 1..Len(st.s) : \A j \in 1..NC(st.s) : st.s[i][j] \in 0..(st.pk - 1)

(* Wang's rational reconstruction exactly as `rational_reconstruction`: returns <<numerator, denominator>> (not
   normalised) *)
RECURSIVE Recon(_,_,_,_,_,_)
Recon(h, u, u1, v, v1, sign) == IF u1 > 0 /\ u1 > h \div u1 THEN   \* u1^2 > h without leaving 32 bits
   Recon(h, u1, u % u1, v1, v + (u \div u1) * v1, -sign) ELSE <<sign * u1, v1>>
Reconstruct(s, h) == Recon(h, h, s, 0, 1, 1)

(* the step bound of `number_of_p_adic_steps_needed`, in integers: squared column norms, the smallest dropped *)
ColSq(A, j) == LET RECURSIVE S(_) S(i) == IF i = 0 THEN 0 ELSE S(i-1) + A[i][j] * A[i][j] IN S(Len(A))
MaxColSq(B) == LET RECURSIVE Mx(_) Mx(j) == IF j = 0 THEN 0 ELSE LET a == ColSq(B, j) b == Mx(j-1) IN IF a > b THEN a ELSE b IN Mx(NC(B))
NormList(A, B) == SortSeqI([j \in 1..(NC(A) + 1) |-> IF j <= NC(A) THEN ColSq(A, j) ELSE MaxColSq(B)])
RECURSIVE ProdFrom(_,_)
ProdFrom(sq, i) == IF i > Len(sq) THEN 1 ELSE sq[i] * ProdFrom(sq, i + 1)
DeltaSq(A, B) == ProdFrom(NormList(A, B), 2)
EnoughSteps(pk, A, B) == pk >= (2618 * DeltaSq(A, B)) \div 1000 + 1    \* pk >= phi^2 * (product of the norms)^2

(* the result: every reconstructed entry equals the entry of A^-1 B = Adj(A) B / det(A) *)
ResultOK(A, B, st) == LET ab == MatMulZ(Adjugate(A), B)  d == Det(A) IN
   \A i \in 1..Len(B) : \A j \in 1..NC(B) : LET r == Reconstruct(st.s[i][j], st.pk) IN r[2] # 0 /\ r[1] * d = r[2] * ab[i][j]
=============================================================================

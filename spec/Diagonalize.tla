---------------------------- MODULE Diagonalize ----------------------------
(* The in-place diagonalisation of src/fpgroups/invariants.rs as a machine: for each diagonal
   position i a pivot of least absolute value is moved to (i,i), then rows and columns below /
   right of it are cleared — by subtraction when the pivot divides the entry, otherwise by the
   unimodular 2x2 combination from the extended Euclidean algorithm — until a column pass
   needs no Euclidean step; finally the diagonal entry is made non-negative.  What has to hold:
   every step preserves all determinantal divisors (the lattice spanned by the rows up to
   unimodular column operations), and the machine stops with a diagonal matrix. *)
EXTENDS ZModules
VARIABLES mat, mat0, i, pc
dvars == <<mat, mat0, i, pc>>
N == NR(mat)
M == NC(mat)
\* extended Euclid as in gcdx: returns <<g, r, s, r', s'>> with g = r*a + s*b, 0 = r'*a + s'*b
RECURSIVE GcdxLoop(_,_,_,_,_,_)
GcdxLoop(a, an, r, rn, s, sn) ==
   IF an = 0 THEN <<a, r, s, rn, sn>>
   ELSE LET q == Quot(a, an) IN GcdxLoop(an, a - q * an, rn, r - q * rn, sn, s - q * sn)

Pivot(A, st) ==   \* position of a non-zero entry of least absolute value in A[st.., st..], row-major first
   LET cand == {p \in (st..NR(A)) \X (st..NC(A)) : A[p[1]][p[2]] # 0} IN
   IF cand = {} THEN <<st, st>> ELSE
   LET best == {p \in cand : \A q \in cand : Abs(A[p[1]][p[2]]) <= Abs(A[q[1]][q[2]])} IN
   CHOOSE p \in best : \A q \in best : p[1] < q[1] \/ (p[1] = q[1] /\ p[2] <= q[2])
SwapRows(A, a, b) == [r \in 1..NR(A) |-> IF r = a THEN A[b] ELSE IF r = b THEN A[a] ELSE A[r]]
SwapCols(A, a, b) == [r \in 1..NR(A) |-> [c \in 1..NC(A) |-> IF c = a THEN A[r][b] ELSE IF c = b THEN A[r][a] ELSE A[r][c]]]

\* one pass over the rows below i; returns <<matrix, number of Euclidean steps>>
RECURSIVE ClearRowsFrom(_,_,_,_)
ClearRowsFrom(A, k, row, cnt) ==
   IF row > NR(A) THEN <<A, cnt>> ELSE
   LET e == A[k][k] f == A[row][k] IN
   IF e # 0 /\ TRem(f, e) = 0 THEN
      LET x == TQuot(f, e) IN
      ClearRowsFrom([A EXCEPT ![row] = [c \in 1..NC(A) |-> IF c >= k THEN A[row][c] - x * A[k][c] ELSE A[row][c]]], k, row + 1, cnt)
   ELSE IF f # 0 THEN
      LET g == Gcdx(e, f) IN
      ClearRowsFrom([A EXCEPT ![k] = [c \in 1..NC(A) |-> IF c >= k THEN A[k][c] * g[2] + A[row][c] * g[3] ELSE A[k][c]],
                              ![row] = [c \in 1..NC(A) |-> IF c >= k THEN A[k][c] * g[4] + A[row][c] * g[5] ELSE A[row][c]]],
                    k, row + 1, cnt + 1)
   ELSE ClearRowsFrom(A, k, row + 1, cnt)
Transpose(A) == [c \in 1..NC(A) |-> [r \in 1..NR(A) |-> A[r][c]]]
ClearRows(A, k) == ClearRowsFrom(A, k, k + 1, 0)
ClearCols(A, k) == LET r == ClearRowsFrom(Transpose(A), k, k + 1, 0) IN <<Transpose(r[1]), r[2]>>

DInit(universe) == mat \in universe /\ mat0 = mat /\ i = 1 /\ pc = "pivot"
MovePivot == /\ pc = "pivot" /\ i <= MinDim(mat)
             /\ LET p == Pivot(mat, i) IN
                IF mat[p[1]][p[2]] # 0
                THEN mat' = SwapCols(SwapRows(mat, i, p[1]), i, p[2]) /\ pc' = "rows"
                ELSE mat' = mat /\ pc' = "abs"
             /\ UNCHANGED <<mat0, i>>
StepRows == /\ pc = "rows" /\ mat' = ClearRows(mat, i)[1] /\ pc' = "cols" /\ UNCHANGED <<mat0, i>>
StepCols == /\ pc = "cols"
            /\ LET r == ClearCols(mat, i) IN mat' = r[1] /\ pc' = IF r[2] = 0 THEN "abs" ELSE "rows"
            /\ UNCHANGED <<mat0, i>>
AbsDiag == /\ pc = "abs" /\ mat' = [mat EXCEPT ![i][i] = Abs(@)] /\ i' = i + 1 /\ pc' = "pivot" /\ UNCHANGED mat0
DNext == MovePivot \/ StepRows \/ StepCols \/ AbsDiag
Finished == pc = "pivot" /\ i > MinDim(mat)

\* the chain fix-up of abelian_invariants on the diagonal
RECURSIVE FixJ(_,_,_)
FixJ(f, a, b) == IF b > Len(f) THEN f ELSE
   IF f[a] # 0 /\ f[b] % Abs(f[a]) # 0
   THEN LET g == Gcd(f[a], f[b]) IN FixJ([f EXCEPT ![a] = g, ![b] = (f[a] \div g) * f[b]], a, b + 1)
   ELSE FixJ(f, a, b + 1)
RECURSIVE FixI(_,_)
FixI(f, a) == IF a > Len(f) THEN f ELSE FixI(FixJ(f, a, a + 1), a + 1)
Diagonal(A) == [k \in 1..MinDim(A) |-> A[k][k]]
MachineResult(ngens) == AbelianFrom(FixI(Diagonal(mat), 1), ngens)

(* invariants *)
LatticePreserved == \A k \in 1..MinDim(mat) : DetDivisor(mat, k) = DetDivisor(mat0, k)
EndsDiagonal == Finished => /\ \A r \in 1..N, c \in 1..M : r # c => mat[r][c] = 0
                            /\ \A k \in 1..MinDim(mat) : mat[k][k] >= 0
\* ... and then the fixed-up diagonal is the list of invariant factors (as a multiset, 1s dropped, zeros padded)
ResultCorrect == Finished => MachineResult(M) = AbelianInvariantsByMinors(mat0, M)
=============================================================================

---------------------------- MODULE Text ----------------------------
(* The text form of D-symbols, "<a.b:size dim:op lists:degree lists>", at the level of its
   numbers: a structured text is [size, dim, ops : Seq(Seq(Nat)), ms : Seq(Seq(Nat))].
   PrintSym lists for every operation the images of the chambers that are not smaller than the
   chamber (images of first-unassigned chambers), and for every index pair (i,i+1) the degree
   m = r*v of each orbit in order of its least chamber.  Parse fills operations and degrees in
   first-unassigned order and rejects whatever does not describe a D-symbol. *)
EXTENDS DSym
ERR == [ok |-> FALSE]
OK(x) == [ok |-> TRUE, val |-> x]
RECURSIVE OrbRepsFrom(_,_,_,_,_)
OrbRepsFrom(S, i, d, seen, acc) == IF d > S.n THEN acc ELSE
   IF d \in seen THEN OrbRepsFrom(S, i, d+1, seen, acc)
   ELSE OrbRepsFrom(S, i, d+1, seen \cup Orbit(S, {i, i+1}, d), Append(acc, d))
OrbReps2(S, i) == OrbRepsFrom(S, i, 1, {}, <<>>)
PrintSym(S) == [size |-> S.n, dim |-> S.dim,
             ops |-> [i \in 1..(S.dim+1) |-> SelectSeq([d \in 1..S.n |-> IF Op(S,i-1,d) >= d THEN Op(S,i-1,d) ELSE 0], LAMBDA x : x # 0)],
             ms |-> [i \in 1..S.dim |-> LET reps == OrbReps2(S, i-1) IN [k \in 1..Len(reps) |-> R(S,i-1,i,reps[k]) * V(S,i-1,reps[k])]]]
RECURSIVE FillOp(_,_,_,_,_)
FillOp(size, list, d, k, f) ==      \* f : partial involution as function 1..size -> 0..size
   IF d > size THEN (IF k - 1 = Len(list) THEN OK(f) ELSE ERR)
   ELSE IF f[d] # 0 THEN FillOp(size, list, d+1, k, f)
   ELSE IF k > Len(list) THEN ERR
   ELSE LET e == list[k] IN
        IF e < 1 \/ e > size THEN ERR
        ELSE IF e # d /\ f[e] # 0 THEN ERR
        ELSE FillOp(size, list, d+1, k+1, [f EXCEPT ![d] = e, ![e] = d])
RECURSIVE FillV(_,_,_,_,_,_,_)
FillV(S0, i, list, d, k, seen, v) ==   \* S0 has ops; v : 1..n -> Nat
   IF d > S0.n THEN (IF k - 1 = Len(list) THEN OK(v) ELSE ERR)
   ELSE IF d \in seen THEN FillV(S0, i, list, d+1, k, seen, v)
   ELSE IF k > Len(list) THEN ERR
   ELSE LET m == list[k]  r == R(S0, i, i+1, d)  O == Orbit(S0, {i, i+1}, d) IN
        IF m % r # 0 THEN ERR
        ELSE FillV(S0, i, list, d+1, k+1, seen \cup O, TLCEval([x \in 1..S0.n |-> IF x \in O THEN m \div r ELSE v[x]]))
Parse(T) ==
   IF T.size < 1 \/ T.dim < 1 \/ Len(T.ops) # T.dim + 1 \/ Len(T.ms) # T.dim THEN ERR ELSE
   LET ro == [i \in 1..(T.dim+1) |-> FillOp(T.size, T.ops[i], 1, 1, [d \in 1..T.size |-> 0])] IN
   IF \E i \in 1..(T.dim+1) : ~ro[i].ok THEN ERR ELSE
   LET ops == [i \in 1..(T.dim+1) |-> ro[i].val]
       S0 == [n |-> T.size, dim |-> T.dim, op |-> ops]
       rv == [i \in 1..T.dim |-> FillV(S0, i-1, T.ms[i], 1, 1, {}, [d \in 1..T.size |-> 0])] IN
   IF \E i \in 1..T.dim : ~rv[i].ok THEN ERR ELSE OK([n |-> T.size, dim |-> T.dim, op |-> ops, v |-> [i \in 1..T.dim |-> rv[i].val]])
=============================================================================

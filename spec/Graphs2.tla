---------------------------- MODULE Graphs2 ----------------------------
(* Directed graphs as sets of pairs <<v,w>>; separation, minimum cuts by exhaustive subsets,
   and maximum sets of edge-disjoint paths (augmenting paths) as a second, faster oracle. *)
EXTENDS Integers, Sequences, FiniteSets, FiniteSetsExt, TLC
RECURSIVE ReachE(_,_,_)
ReachE(E, frontier, seen) == IF frontier = {} THEN seen ELSE
   LET nxt == {e[2] : e \in {x \in E : x[1] \in frontier}} \ seen IN ReachE(E, nxt, seen \cup nxt)
Reach(E, s) == ReachE(E, {s}, {s})
SeparatesE(E, C, s, t) == t \notin Reach(E \ C, s)
RemoveV(E, X) == {e \in E : e[1] \notin X /\ e[2] \notin X}
SeparatesV(E, X, s, t) == t \notin Reach(RemoveV(E, X), s)
Sym(E) == E \cup {<<e[2], e[1]>> : e \in E}
Vertices(E) == {x[1] : x \in E} \cup {x[2] : x \in E}

\* smallest k such that some k-subset separates (definition of "minimum")
RECURSIVE MinK(_,_,_)
MinK(sets(_), ok(_), k) == IF \E C \in sets(k) : ok(C) THEN k ELSE MinK(sets, ok, k + 1)
MinEdgeCutBySubsets(E, s, t) == LET S(k) == kSubset(k, E) OK(C) == SeparatesE(E, C, s, t) IN MinK(S, OK, 0)
MinVertexCutBySubsets(E, V, s, t) == LET S(k) == kSubset(k, V \ {s, t}) OK(X) == SeparatesV(E, X, s, t) IN MinK(S, OK, 0)

(* ---- unit flows and augmenting paths ---- *)
\* residual arcs of the flow F (a set of edges of E used by the current paths)
Residual(E, F) == {a \in E \cup {<<e[2], e[1]>> : e \in F} : a \notin F}
\* BFS tree in the arc set R from s: a function vertex -> parent on the reached vertices
RECURSIVE BfsTree(_,_,_)
BfsTree(R, frontier, par) ==
   IF frontier = {} THEN par ELSE
   LET new == {w \in {a[2] : a \in R} : w \notin DOMAIN par /\ \E v \in frontier : <<v, w>> \in R}
       par2 == TLCEval([w \in (DOMAIN par) \cup new |-> IF w \in DOMAIN par THEN par[w]
                                                  ELSE CHOOSE v \in frontier : <<v, w>> \in R])
   IN BfsTree(R, new, par2)
\* push one unit along the tree path from t back to s
RECURSIVE Toggle(_,_,_,_)
Toggle(F, par, w, s) == IF w = s THEN F ELSE
   LET v == par[w] IN Toggle(IF <<w, v>> \in F THEN F \ {<<w, v>>} ELSE F \cup {<<v, w>>}, par, v, s)
RECURSIVE MaxFlowFrom(_,_,_,_)
MaxFlowFrom(E, F, s, t) ==
   LET par == BfsTree(Residual(E, F), {s}, [x \in {s} |-> s]) IN
   IF t \in DOMAIN par THEN MaxFlowFrom(E, Toggle(F, par, t, s), s, t) ELSE F
FlowValue(F, s) == Cardinality({e \in F : e[1] = s}) - Cardinality({e \in F : e[2] = s})
MaxFlowValue(E, s, t) == FlowValue(MaxFlowFrom(E, {}, s, t), s)
\* vertex version by splitting every vertex v into v (in) and v+off (out)
SplitGraph(E, V, off) == {<<e[1] + off, e[2]>> : e \in E} \cup {<<v, v + off>> : v \in V}
MaxVertexDisjoint(E, V, s, t) ==
   LET off == 1 + Max(V \cup {s, t}) IN MaxFlowValue(SplitGraph(E, V, off), s + off, t)
=============================================================================

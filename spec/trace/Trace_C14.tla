---------------------------- MODULE Trace_C14 ----------------------------
(* impl -> spec for C14: every recorded call of abelian_invariants returned the invariants of
   the relation lattice (exponent-sum matrix of the relators), and the transformed variants
   of a presentation (relators permuted / inverted / rotated / conjugated, generators renamed
   or inverted, products of relators appended) give the same list. *)
EXTENDS ZModules, FreeGroup, Json, IOUtils
Rec == ndJsonDeserialize(IOEnv.TRACE)
VARIABLE l
Init == l = 1
ExpMatrix(ngens, rels) == [r \in 1..Len(rels) |-> [g \in 1..ngens |-> ExpSum(rels[r], g)]]
Expected(ngens, rels) == AbelianInvariants(ExpMatrix(ngens, rels), ngens)
CheckOK(e) ==
   LET want == Expected(e.ngens, e.relators) IN
   /\ e.out = want
   /\ \A k \in 1..Len(e.variants) : LET v == e.variants[k] IN
         /\ "panic" \notin DOMAIN v
         /\ v.out = e.out                                  \* invariance (statement level)
         /\ v.out = Expected(v.ngens, v.relators)          \* and each variant on its own
Next == /\ l <= Len(Rec)
        /\ ("panic" \notin DOMAIN Rec[l] /\ CheckOK(Rec[l])) = TRUE
        /\ l' = l + 1
Spec == Init /\ [][Next]_l
Accepted == LET d == TLCGet("stats").diameter IN
   IF d - 1 = Len(Rec) THEN PrintT(<<"TRACE", "accepted", d - 1>>)
   ELSE PrintT(<<"TRACE", "rejected", d>>)
=============================================================================

---------------------------- MODULE Trace_C18e ----------------------------
(* impl -> spec for the elimination machine (hooked; DESIGN.md section 8).  One event = one run of
   RowEchelonVecMatrix::new: the input matrix a (machine integers), the snapshot after every column
   (columns done, pivots found, swaps, u, s) and the final state (u, s, cols, rank, swaps).

   Every logged state must satisfy the invariants of Echelon.tla:
      Mult   s * a = u           DetS   det s = (-1)^swaps           Shape  echelon pattern of the processed columns
   and the final state must give the read-outs (rank = rank of a, determinant, zero rows, leading zeros).
   Backend "f61": everything is evaluated in the field Z/61 itself.  Backends "i64" and "bigrational": entries are
   rationals [n, q] of big integers; the zero pattern is read from the signs, the equalities are checked modulo
   enough primes of ModArith!PRIMES that do not divide any denominator (Chinese remainder theorem: a rational
   whose cleared numerator has fewer digits than the product of the primes and which vanishes modulo all of them
   is 0).  When the table of primes is too short for the numbers involved the clause is not decided (counted in
   "undecided", never a verdict).
   Conformance level (NOTE, never a violation): every step is a step EStep of the machine for SOME pivot row
   (f61: exactly the code's rule "first"; small integers: exactly the rule "min"), evaluated in Z/61 resp. modulo the
   first usable prime resp. in the integers. *)
EXTENDS Echelon, Json, IOUtils
Rec == ndJsonDeserialize(IOEnv.TRACE)
VARIABLE l
Init == l = 1
F == 61
IsF(e) == e.backend = "f61"
Dg(x) == Len(x.d)
\* ---- states as the code logs them: entries residues (f61) or rationals [n, q]
NRows(e) == Len(e.a)
NCols(e) == Len(e.a[1])
ColsAt(e, row) == [k \in 1..NRows(e) |-> IF k <= row THEN e.cols[k] ELSE NRows(e)]
Final(e) == [u |-> e.u, s |-> e.s, row |-> e.rank, col |-> IF Len(e.steps) = 0 THEN 0 ELSE e.steps[Len(e.steps)].col, swaps |-> e.swaps, cols |-> e.cols]
StateAt(e, k) == LET t == e.steps[k] IN [u |-> t.u, s |-> t.s, row |-> t.row, col |-> t.col, swaps |-> t.swaps, cols |-> ColsAt(e, t.row)]
\* zero pattern of a state (entries 0 / 1), on which Shape is evaluated exactly
Pattern(e, X) == IF IsF(e) THEN [i \in 1..Len(X) |-> [j \in 1..Len(X[i]) |-> IF X[i][j] = 0 THEN 0 ELSE 1]]
                 ELSE [i \in 1..Len(X) |-> [j \in 1..Len(X[i]) |-> IF X[i][j].n.s = 0 THEN 0 ELSE 1]]
WellFormed(e, st) == /\ Len(st.u) = NRows(e) /\ \A i \in 1..NRows(e) : Len(st.u[i]) = NCols(e)
                     /\ Len(st.s) = NRows(e) /\ \A i \in 1..NRows(e) : Len(st.s[i]) = NRows(e)
                     /\ IF IsF(e) THEN (\A i \in 1..NRows(e) : (\A j \in 1..NCols(e) : st.u[i][j] \in 0..(F-1)) /\ (\A j \in 1..NRows(e) : st.s[i][j] \in 0..(F-1)))
                        ELSE (\A i \in 1..NRows(e) : (\A j \in 1..NCols(e) : st.u[i][j].q.s = 1) /\ (\A j \in 1..NRows(e) : st.s[i][j].q.s = 1))
ShapeOK(e, st) == Shape(e.a, [st EXCEPT !.u = Pattern(e, st.u)])
\* ---- residues of a rational state modulo p (only for primes that divide no denominator)
Usable(st, p) == /\ \A i \in 1..Len(st.u) : \A j \in 1..Len(st.u[i]) : Res(st.u[i][j].q, p) # 0
                 /\ \A i \in 1..Len(st.s) : \A j \in 1..Len(st.s[i]) : Res(st.s[i][j].q, p) # 0
RatRes(x, p) == (Res(x.n, p) * InvMod(Res(x.q, p), p)) % p
ResMat(X, p) == [i \in 1..Len(X) |-> [j \in 1..Len(X[i]) |-> RatRes(X[i][j], p)]]
ResState(st, p) == [st EXCEPT !.u = ResMat(st.u, p), !.s = ResMat(st.s, p)]
\* digits of the cleared numerator of any entry of s*a - u, and of det(s) -+ 1
MaxSeq(f(_), n) == LET RECURSIVE Mx(_) Mx(i) == IF i = 0 THEN 0 ELSE LET a == f(i) b == Mx(i-1) IN IF a > b THEN a ELSE b IN Mx(n)
SumSeq(f(_), n) == LET RECURSIVE Sm(_) Sm(i) == IF i = 0 THEN 0 ELSE f(i) + Sm(i-1) IN Sm(n)
RowDenDig(X, i) == LET f(j) == Dg(X[i][j].q) IN SumSeq(f, Len(X[i]))
RowNumDig(X, i) == LET f(j) == Dg(X[i][j].n) IN MaxSeq(f, Len(X[i]))
MultDigits(st) == LET f(i) == RowDenDig(st.s, i) + RowDenDig(st.u, i) + RowNumDig(st.s, i) + RowNumDig(st.u, i) + 14 IN MaxSeq(f, Len(st.s))
DetDigits(st) == LET f(i) == RowDenDig(st.s, i) + RowNumDig(st.s, i) + 2 IN SumSeq(f, Len(st.s)) + 4
\* the first k usable primes (indices), or <<>> if the table is too short
RECURSIVE Pick(_,_,_,_)
Pick(st, k, i, acc) == IF Len(acc) = k THEN acc ELSE IF i > Len(PRIMES) THEN <<>> ELSE
                        Pick(st, k, i + 1, IF Usable(st, PRIMES[i]) THEN Append(acc, i) ELSE acc)
PrimesFor(st, digits) == IF ~Enough(Len(PRIMES), digits) THEN <<>> ELSE Pick(st, NPrimesFor(digits), 1, <<>>)
\* ---- the invariants on one logged state; "undecided" results are TRUE with a note
MultOK(e, st) == IF IsF(e) THEN Mult(F, e.a, st)
                 ELSE LET ps == PrimesFor(st, MultDigits(st)) IN
                      IF ps = <<>> THEN PrintT(<<"NOTE", "undecided: Mult (prime table too short)">>)
                      ELSE \A x \in 1..Len(ps) : Mult(PRIMES[ps[x]], e.a, ResState(st, PRIMES[ps[x]]))
DetSOK(e, st) == IF IsF(e) THEN DetS(F, st)
                 ELSE LET ps == PrimesFor(st, DetDigits(st)) IN
                      IF ps = <<>> THEN PrintT(<<"NOTE", "undecided: DetS (prime table too short)">>)
                      ELSE \A x \in 1..Len(ps) : DetS(PRIMES[ps[x]], ResState(st, PRIMES[ps[x]]))
StateOK(e, st) == WellFormed(e, st) /\ ShapeOK(e, st) /\ MultOK(e, st) /\ DetSOK(e, st)
\* ---- read-outs of the final state
RankQ(A) == LET k == NPrimesFor(11 * (IF Len(A) < Len(A[1]) THEN Len(A) ELSE Len(A[1])) + 2)
                f(i) == RankMod(MatMod(A, PRIMES[i]), PRIMES[i]) IN MaxOver(f, k)
FinalOK(e) == LET st == Final(e)  pat == Pattern(e, st.u) IN
   /\ EDone(e.a, st)
   /\ st.row = IF IsF(e) THEN RankMod(MatMod(e.a, F), F) ELSE RankQ(e.a)
   /\ \A i \in (st.row + 1)..NRows(e) : \A j \in 1..NCols(e) : pat[i][j] = 0
   /\ \A i \in 1..st.row : \A j \in 1..st.cols[i] : pat[i][j] = 0
   /\ (NRows(e) = NCols(e)) =>
        IF IsF(e) THEN DetReadOut(F, st) = DetMod(MatMod(e.a, F), F)
        ELSE LET dg == LET f(i) == RowDenDig(st.u, i) + RowNumDig(st.u, i) + 11 IN SumSeq(f, NRows(e)) + 4
                 ps == PrimesFor(st, dg) IN
             IF ps = <<>> THEN PrintT(<<"NOTE", "undecided: determinant read-out (prime table too short)">>)
             ELSE \A x \in 1..Len(ps) : LET p == PRIMES[ps[x]] IN DetReadOut(p, ResState(st, p)) = DetMod(MatMod(e.a, p), p)
\* ---- conformance: each step is a step of the machine
SmallInts(st) == /\ \A i \in 1..Len(st.u) : \A j \in 1..Len(st.u[i]) : Dg(st.u[i][j].n) <= 3 /\ st.u[i][j].q.d = <<1>>
                 /\ \A i \in 1..Len(st.s) : \A j \in 1..Len(st.s[i]) : Dg(st.s[i][j].n) <= 3 /\ st.s[i][j].q.d = <<1>>
IntOf(x) == LET RECURSIVE H(_,_) H(ds, acc) == IF ds = <<>> THEN acc ELSE H(Tail(ds), acc * 10 + Head(ds)) IN x.s * H(x.d, 0)
IntState(st) == [st EXCEPT !.u = [i \in 1..Len(st.u) |-> [j \in 1..Len(st.u[i]) |-> IntOf(st.u[i][j].n)]],
                           !.s = [i \in 1..Len(st.s) |-> [j \in 1..Len(st.s[i]) |-> IntOf(st.s[i][j].n)]]]
First(e) == IF IsF(e) THEN EInit(MatMod(e.a, F)) ELSE EInit(e.a)
StepConforms(e, k) ==    \* step from state k-1 to state k (k >= 1)
   IF IsF(e) THEN LET a == IF k = 1 THEN First(e) ELSE StateAt(e, k-1) IN StateAt(e, k) = EStep(F, a, CodePivot("first", a))
   ELSE IF e.backend = "i64"
        THEN IF (k = 1 \/ SmallInts(StateAt(e, k-1))) /\ SmallInts(StateAt(e, k))
             THEN LET a == IF k = 1 THEN First(e) ELSE IntState(StateAt(e, k-1)) IN IntState(StateAt(e, k)) = EStep(0, a, CodePivot("min", a))
             ELSE TRUE     \* the integer step needs the integers themselves (gcdx); beyond three digits it is not replayed
   ELSE LET ps == Pick(StateAt(e, k), 1, 1, <<>>) IN
        IF ps = <<>> \/ (k > 1 /\ ~Usable(StateAt(e, k-1), PRIMES[ps[1]])) THEN TRUE
        ELSE LET p == PRIMES[ps[1]]
                 a == IF k = 1 THEN EInit(MatMod(e.a, p)) ELSE ResState(StateAt(e, k-1), p)
                 b == ResState(StateAt(e, k), p)
             IN \E pr \in PivotChoices(a) : b = EStep(p, a, pr)
Conforms(e) == \A k \in 1..Len(e.steps) : StepConforms(e, k)
StepsLinked(e) ==   \* the snapshots are consecutive columns and the last one is the final state
   /\ \A k \in 1..Len(e.steps) : e.steps[k].col = k
   /\ Len(e.steps) > 0 => LET t == e.steps[Len(e.steps)] IN t.u = e.u /\ t.s = e.s /\ t.row = e.rank /\ t.swaps = e.swaps
   /\ Len(e.cols) = NRows(e)
(* ---- padic_run: the lifting steps of the p-adic solver (PAdic.tla).  Big integers are sign/digit records; every
   identity is an identity between integers and is checked modulo enough primes (CRT):
      digit range   0 <= x < prime, 0 <= s < p            (digit strings compared)
      accumulate    s = s_prev + x * p_prev,  p = p_prev * prime
      residual      prime * b_next + A x = b                (so the division in the code was exact)
      Lift          A s + p * b_next = B                    (PAdic!Lift on the logged state)
   and consecutive steps are linked (b of step k+1 is b_next of step k). *)
BigNonNeg(x) == x.s \in {0, 1}
RECURSIVE DigitsLess(_,_)
DigitsLess(a, b) == IF a = <<>> THEN FALSE ELSE IF Head(a) # Head(b) THEN Head(a) < Head(b) ELSE DigitsLess(Tail(a), Tail(b))
BigLess(x, y) == \* for non-negative x, y without leading zeros
   IF x.s = 0 THEN y.s = 1 ELSE y.s = 1 /\ (Len(x.d) < Len(y.d) \/ (Len(x.d) = Len(y.d) /\ DigitsLess(x.d, y.d)))
BigMatDigits(X) == LET f(i) == LET g(j) == Dg(X[i][j]) IN MaxSeq(g, Len(X[i])) IN MaxSeq(f, Len(X))
One == [s |-> 1, d |-> <<1>>]
ZeroBigMat(n, m) == [i \in 1..n |-> [j \in 1..m |-> [s |-> 0, d |-> <<0>>]]]
\* (A * X)[i][j] modulo q for an integer matrix A (small entries) and a big-integer matrix X
ADot(A, X, i, j, q) == LET RECURSIVE S(_) S(k) == IF k = 0 THEN 0 ELSE (S(k-1) + Mod(A[i][k], q) * Res(X[k][j], q)) % q IN S(Len(A[i]))
PadicStepOK(e, k) ==
   LET t == e.steps[k]
       n == Len(e.a)  m == Len(e.b[1])
       sprev == IF k = 1 THEN ZeroBigMat(n, m) ELSE e.steps[k-1].s
       pprev == IF k = 1 THEN One ELSE e.steps[k-1].p
       dg == BigMatDigits(t.s) + BigMatDigits(t.b) + Dg(t.p) + 14
       np == IF Enough(Len(PRIMES), dg) THEN NPrimesFor(dg) ELSE 0
   IN /\ t.step = k - 1 /\ t.of = Len(e.steps) /\ t.last = (k = Len(e.steps)) /\ t.prime = e.steps[1].prime /\ BigLess(One, t.prime)
      /\ Len(t.x) = n /\ Len(t.s) = n /\ Len(t.b) = n
      /\ \A i \in 1..n : Len(t.x[i]) = m /\ Len(t.s[i]) = m /\ Len(t.b[i]) = m
      /\ \A i \in 1..n, j \in 1..m : BigNonNeg(t.x[i][j]) /\ BigLess(t.x[i][j], t.prime) /\ BigNonNeg(t.s[i][j]) /\ BigLess(t.s[i][j], t.p)
      /\ (k = 1 => \A i \in 1..n, j \in 1..m : Res(t.b[i][j], PRIMES[1]) = Mod(e.b[i][j], PRIMES[1]) /\ Dg(t.b[i][j]) <= 10)   \* starts from B
      /\ (k > 1 => t.b = e.steps[k-1].b_next)
      /\ IF np = 0 THEN PrintT(<<"NOTE", "undecided: p-adic step (prime table too short)">>)
         ELSE \A x \in 1..np : LET q == PRIMES[x] IN
              /\ Res(t.p, q) = (Res(pprev, q) * Res(t.prime, q)) % q
              /\ \A i \in 1..n, j \in 1..m :
                    /\ Res(t.s[i][j], q) = (Res(sprev[i][j], q) + Res(t.x[i][j], q) * Res(pprev, q)) % q
                    /\ (~t.last => /\ (Res(t.prime, q) * Res(t.b_next[i][j], q) + ADot(e.a, t.x, i, j, q)) % q = Res(t.b[i][j], q)
                                    /\ (ADot(e.a, t.s, i, j, q) + Res(t.p, q) * Res(t.b_next[i][j], q)) % q = Mod(e.b[i][j], q))
PadicOK(e) == /\ Len(e.steps) >= 1 /\ \A k \in 1..Len(e.steps) : PadicStepOK(e, k)
Check(e) == IF e.ev = "padic_run" THEN PadicOK(e) ELSE
            /\ e.ev = "echelon_run"
            /\ StepsLinked(e)
            /\ \A k \in 1..Len(e.steps) : StateOK(e, StateAt(e, k))
            /\ (Len(e.steps) = 0 => e.rank = 0 /\ e.swaps = 0)
            /\ (Len(e.steps) > 0 => FinalOK(e))
(* Level of these checks.  The logged states are INTERNAL states of one particular algorithm.  A lawful variation of the
   library (entries below a pivot left uncleared because nothing reads them, a normalised echelon form, symmetric p-adic
   digits, quadratic lifting) changes them while every statement of C18 still holds, and C18 itself is decided on the
   results of the public routines by Trace_C18.  A state or step that does not satisfy the machine's invariants is
   therefore reported as NOTE conformance (with the event number), never as a violation; only a panic inside the hooked
   routine rejects the trace. *)
Next == /\ l <= Len(Rec)
        /\ ("panic" \notin DOMAIN Rec[l]) = TRUE
        /\ (IF ~Check(Rec[l]) THEN PrintT(<<"NOTE", "hooked state violates a machine invariant", l>>) ELSE TRUE) = TRUE
        /\ (IF Rec[l].ev = "echelon_run" /\ ~Conforms(Rec[l]) THEN PrintT(<<"NOTE", "elimination step is not Echelon!EStep", l>>) ELSE TRUE) = TRUE
        /\ l' = l + 1
Spec == Init /\ [][Next]_l
Accepted == LET d == TLCGet("stats").diameter IN
   IF d - 1 = Len(Rec) THEN PrintT(<<"TRACE", "accepted", d - 1>>)
   ELSE PrintT(<<"TRACE", "rejected", d>>)
=============================================================================

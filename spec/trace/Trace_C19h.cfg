SPECIFICATION Spec
INVARIANTS FlowValid NoAntiparallel
POSTCONDITION Accepted
CHECK_DEADLOCK FALSE

---------------------------- MODULE Trace_C15 ----------------------------
(* impl -> spec for C15.
   toroidal        : for a euclidean 2-D symbol the toroidal cover is a connected, oriented covering
                     with all branching numbers 1 that is a torus (no boundary, no cones, one handle:
                     read off the orbits by Surface2D), and the library's presentation of its
                     fundamental group has no cones and abelianises to Z^2 (specification's Smith form).
   pseudo_toroidal : for a 3-D symbol in the crystallographic domain: if a cover is returned it is
                     oriented, branch-free, a covering of the oriented cover (hence of the input),
                     its sheet number over the oriented cover is the order of an admissible point
                     group, H1 = Z^3; found / not found and the sheet number agree for every
                     renumbering of the input and its dual; corpus symbols have one. *)
EXTENDS Mfd3, Prism, Action, Json, IOUtils
Rec == ndJsonDeserialize(IOEnv.TRACE)
VARIABLE l
Init == l = 1
CoveringOK(C, S) == CompleteSym(C) /\ Connected(C) /\ C.n % S.n = 0 /\ IsCoverOf(C, S)
ToroidalOK(e) ==
   LET S == e.sym  C == e.cov  Q == Orbifold(C) IN
   /\ CompleteSym(S) /\ S.dim = 2 /\ Orbifold(S).curv[1] = 0            \* domain: euclidean
   /\ CoveringOK(C, S) /\ Oriented(C) /\ BranchFree(C)
   /\ Q.nbnd = 0 /\ Q.x = 2 /\ Q.orientable                              \* a torus, independently of any group code
   /\ e.pres.ncones = 0 /\ H1(e.pres) = <<0, 0>>
PTCoverOK(g, S) ==       \* g: [oc, cov, pres] for the symbol S
   LET OC == g.oc  C == g.cov IN
   /\ CoveringOK(OC, S) /\ Oriented(OC) /\ OC.n = (IF Oriented(S) THEN 1 ELSE 2) * S.n
   /\ CoveringOK(C, OC) /\ Oriented(C) /\ BranchFree(C)
   /\ (C.n \div OC.n) \in AdmissibleSheets
   /\ H1(g.pres) = <<0, 0, 0>>
PseudoOK(e) ==
   LET S == e.sym IN
   /\ CompleteSym(S) /\ S.dim = 3
   /\ (e.found => PTCoverOK(e, S))
   /\ (e.corpus => e.found)
   \* the prism family: the corpus claim is justified here (curvature 0 in 2-D, covering of the prism symbol)
   /\ ("prism_of" \in DOMAIN e => Euclidean2D(e.prism_of) /\ Connected(S) /\ IsCoverOf(S, Prism(e.prism_of)) /\ e.found)
   \* prisms over 2-D symbols of any geometry: the input really is the prism of the specification (nothing else is claimed)
   /\ ("prism_over" \in DOMAIN e => CompleteSym(e.prism_over) /\ e.prism_over.dim = 2 /\ S = Prism(e.prism_over))
   /\ \A k \in 1..Len(e.variants) : LET w == e.variants[k] IN
         /\ "panic" \notin DOMAIN w
         /\ (w.how = "dual" => w.sym = Dual(S))                           \* the relative really is the dual (derived::dual)
         /\ w.found = e.found                                            \* independent of the numbering / dualisation
         /\ (e.found => w.sheets = e.cov.n \div e.oc.n)
Next == /\ l <= Len(Rec)
        /\ ("panic" \notin DOMAIN Rec[l] /\
            CASE Rec[l].ev = "toroidal" -> ToroidalOK(Rec[l])
              [] Rec[l].ev = "pseudo_toroidal" -> PseudoOK(Rec[l])
              [] OTHER -> FALSE) = TRUE
        /\ l' = l + 1
Spec == Init /\ [][Next]_l
Accepted == LET d == TLCGet("stats").diameter IN
   IF d - 1 = Len(Rec) THEN PrintT(<<"TRACE", "accepted", d - 1>>)
   ELSE PrintT(<<"TRACE", "rejected", d>>)
=============================================================================

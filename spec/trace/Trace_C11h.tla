---------------------------- MODULE Trace_C11h ----------------------------
(* impl -> spec for C11 with hooks: the steps of the real coset enumeration (cfg
   rust_dsymbols_verif: `define`, `scan`, `return` events from src/fpgroups/cosets.rs) are a
   behaviour of the general Todd-Coxeter machine of ToddCoxeter.tla.

   header : the presentation, the subgroup generators, a permutation model of G with its known
            order (verified here exactly as in Trace_C11) and the action of G on the cosets of
            H derived from it by the harness — verified here to be a transitive action in which
            the relators act trivially, H fixes point 1, and whose size is |G| / |<H>|.
   define : the machine's Define at that row and generator (the row counter must agree).
   scan   : the word must be one the machine may scan there (a rotation / inverse of a relator at
            any live row, a subgroup generator at the base row only — conformance clause `Legal`),
            the logged gap / head / tail must be what the machine computes, and the machine's
            effect (deduction or coincidence with the queue loop) is applied.
   return : only in a closed state, and the returned table is the abstract table with the base
            coset as row 0.
   The invariants Sound (ghost labels: nothing is identified or deduced that the true action does
   not justify) and InverseConsistent are checked in every visited state. *)
EXTENDS Action, Json, IOUtils
Rec == ndJsonDeserialize(IOEnv.TRACE)
Hdr == Rec[1]
TNG == Hdr.ng
TGens == (1..TNG) \cup {-g : g \in 1..TNG}
SeqSet(q) == {q[k] : k \in 1..Len(q)}
TRels == SeqSet(Hdr.rels)
TSubs == SeqSet(Hdr.subs)
TAct == [c \in 1..Hdr.truen |-> [g \in TGens |-> Hdr.act[c][Pos(TNG, g)]]]
VARIABLES table, cls, nrows, ghost, done, l
M == INSTANCE ToddCoxeter WITH NG <- TNG, Rels <- TRels, Subs <- TSubs, MaxRows <- 160, TrueN <- Hdr.truen, TrueAct <- TAct
RECURSIVE TrW(_,_)
TrW(w, c) == IF w = <<>> THEN c ELSE TrW(Tail(w), TAct[c][Head(w)])
RECURSIVE ReachC(_,_)
ReachC(frontier, seen) == IF frontier = {} THEN seen ELSE
   LET nxt == {TAct[c][g] : c \in frontier, g \in TGens} \ seen IN ReachC(nxt, seen \cup nxt)
HeaderOK == /\ ModelOK(Hdr.gact, TNG, Hdr.rels) /\ Cardinality(ModelGroup(Hdr.gact)) = Hdr.order
            /\ Hdr.truen * Cardinality(SubgroupOf(Hdr.gact, Hdr.subs)) = Hdr.order
            /\ \A c \in 1..Hdr.truen, g \in TGens : TAct[c][g] \in 1..Hdr.truen /\ TAct[TAct[c][g]][-g] = c
            /\ ReachC({1}, {1}) = 1..Hdr.truen
            /\ \A w \in TRels, c \in 1..Hdr.truen : TrW(w, c) = c
            /\ \A w \in TSubs : TrW(w, 1) = 1
Init == M!Init /\ l = 2 /\ Assert(HeaderOK, "the header's permutation model / coset action is not valid (harness data)")
Ev == Rec[l]
Step == l' = l + 1
TDefine == /\ l <= Len(Rec) /\ Ev.ev = "define" /\ Ev.n = nrows
           /\ M!DefineAt(cls[Ev.r], Ev.g) /\ Step
Outcome(w, r) == LET f == M!Fwd(table, cls, w, r, 1)  b == M!Bwd(table, cls, w, r, 0, Len(w) - f[2]) IN
                   [head |-> f[1], tail |-> b[1], gap |-> Len(w) - f[2] - b[2]]
Legal(w, r) == (w \in M!Expanded) \/ (w \in TSubs /\ cls[r] = cls[0])
TScan == /\ l <= Len(Rec) /\ Ev.ev = "scan" /\ Step
         /\ LET r == cls[Ev.r]  o == Outcome(Ev.w, r) IN
            /\ Legal(Ev.w, r)
            /\ o.gap = Ev.gap /\ cls[Ev.head] = o.head /\ cls[Ev.tail] = o.tail
            /\ IF o.gap = 1 \/ (o.gap = 0 /\ o.head # o.tail) THEN M!ScanAt(Ev.w, r)
               ELSE UNCHANGED <<table, cls, nrows, ghost, done>>
RECURSIVE MapRows(_,_,_)
MapRows(T, frontier, phi) == IF frontier = {} THEN phi ELSE
   LET cand == {p \in frontier \X TGens : T[p[1]+1][Pos(TNG, p[2])] \notin DOMAIN phi}
       tgt == {T[p[1]+1][Pos(TNG, p[2])] : p \in cand}
       pick(x) == CHOOSE p \in cand : T[p[1]+1][Pos(TNG, p[2])] = x
       phi2 == TLCEval([x \in (DOMAIN phi) \cup tgt |-> IF x \in DOMAIN phi THEN phi[x] ELSE LET p == pick(x) IN M!Get(table, cls, phi[p[1]], p[2])])
   IN MapRows(T, tgt, phi2)
SameTable(T) == LET phi == MapRows(T, {0}, [x \in {0} |-> cls[0]]) IN
   /\ DOMAIN phi = 0..(Len(T)-1)
   /\ {phi[x] : x \in DOMAIN phi} = M!Live /\ Cardinality(M!Live) = Len(T)
   /\ \A x \in DOMAIN phi, g \in TGens : phi[T[x+1][Pos(TNG, g)]] = M!Get(table, cls, phi[x], g)
TReturn == /\ l <= Len(Rec) /\ Ev.ev = "return" /\ Step
           /\ M!Closed /\ SameTable(Ev.table) /\ Len(Ev.table) = Hdr.truen
           /\ done' = TRUE /\ UNCHANGED <<table, cls, nrows, ghost>>
Next == TDefine \/ TScan \/ TReturn
Spec == Init /\ [][Next]_<<table, cls, nrows, ghost, done, l>>
Sound == M!Sound
InverseConsistent == M!InverseConsistent
Accepted == LET d == TLCGet("stats").diameter IN
   IF d = Len(Rec) THEN PrintT(<<"TRACE", "accepted", d>>)
   ELSE PrintT(<<"TRACE", "rejected", d + 1>>)
=============================================================================

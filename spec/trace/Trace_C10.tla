---------------------------- MODULE Trace_C10 ----------------------------
(* impl -> spec for C10: recorded operations on (long, random) free words and a recorded
   comparison table are behaviours of the free-group calculus. *)
EXTENDS FreeGroup, TLC, Json, IOUtils
Rec == ndJsonDeserialize(IOEnv.TRACE)
VARIABLE l
Init == l = 1

OpOK(e) ==
   CASE e.op = "new"        -> e.out = Reduce(e.raw)
     [] e.op = "mul"        -> e.out = Mul(e.a, e.b)
     [] e.op = "mul_assign" -> e.out = Mul(e.a, e.b)
     [] e.op = "mul_letter" -> e.out = Mul(e.a, <<e.g>>)
     [] e.op = "inverse"    -> e.out = Inv(e.a)
     [] e.op = "raised_to"  -> e.out = Pow(e.a, e.m)
     [] e.op = "commutator" -> e.out = Comm(e.a, e.b)
     [] e.op = "rotated"    -> e.out = Rot(e.a, e.i)
     [] OTHER -> FALSE

(* the comparison table of a set of distinct reduced words closed under rotation and
   inversion: a strict total order compatible with equality; the relator representative is
   the least rotation/inverse in *that* order; the permutation set is exactly RelPerms *)
OrderOK(e) ==
   LET W == e.words  n == Len(W)  c == e.cmp
       idx(w) == CHOOSE k \in 1..n : W[k] = w
   IN /\ \A i, j \in 1..n : /\ c[i][j] \in {-1, 0, 1}
                            /\ (c[i][j] = 0) <=> (i = j)
                            /\ c[j][i] = -c[i][j]
                            /\ e.eq[i][j] = (i = j)
      /\ \A i, j, k \in 1..n : (c[i][j] = -1 /\ c[j][k] = -1) => c[i][k] = -1
      /\ \A i \in 1..n : LET P == RelPerms(W[i]) IN
            /\ {e.perms[i][k] : k \in 1..Len(e.perms[i])} = P
            /\ Len(e.perms[i]) = Cardinality(P)                       \* no repeats
            /\ e.reps[i] \in P
            /\ \A y \in P : c[idx(e.reps[i])][idx(y)] <= 0
\* conformance level: the order is the one the reference machine uses
OrderConf(e) == \A i, j \in 1..Len(e.words) : e.cmp[i][j] = Cmp(e.words[i], e.words[j])

Next == /\ l <= Len(Rec)
        /\ (LET e == Rec[l] IN
             /\ "panic" \notin DOMAIN e
             /\ IF e.ev = "word_op" THEN OpOK(e)
                ELSE IF e.ev = "word_order" THEN OrderOK(e) /\ (IF OrderConf(e) THEN TRUE ELSE PrintT(<<"NOTE", "cmp differs from reference order", l>>))
                ELSE FALSE) = TRUE
        /\ l' = l + 1
Spec == Init /\ [][Next]_l
Accepted == LET d == TLCGet("stats").diameter IN
   IF d - 1 = Len(Rec) THEN PrintT(<<"TRACE", "accepted", d - 1>>)
   ELSE PrintT(<<"TRACE", "rejected", d>>)
=============================================================================

---------------------------- MODULE Trace_C01 ----------------------------
(* impl -> spec for C01.
   parse event: the result of FromStr on some text — an error, or a symbol that must be a
     valid D-symbol (operations involutions on 1..size, branching constant on orbits, i.e.
     degrees multiples of the orbit lengths) whose own printed text parses back to it.
     Where the text came from the specification's generator the expected verdict/symbol ride
     along; disagreement there is conformance level (a more tolerant parser is not a defect).
   roundtrip event: a complete symbol built with the library's constructors, printed and
     parsed back: must succeed and give the same symbol.
   A panic (or an aborted child process) is never accepted. *)
EXTENDS Text, Json, IOUtils
Rec == ndJsonDeserialize(IOEnv.TRACE)
VARIABLE l
Init == l = 1
ParseOK(e) ==
   IF ~e.ok THEN TRUE
   ELSE IF e.huge THEN e.reparse_ok /\ e.reparse_same     \* numbers beyond TLC's integers: only totality and the round trip
   ELSE
   /\ IsDSym(e.sym)                            \* valid symbol (v = 0 allowed: undefined degree)
   /\ e.reparse_ok /\ e.reparse_same /\ e.reparse_sym = e.sym    \* printing the parsed symbol parses to the same symbol
ParseConf(e) == ("exp_ok" \in DOMAIN e) => (e.ok = e.exp_ok /\ ((e.ok /\ ~e.huge) => e.sym = e.exp_sym))
RoundTripOK(e) == /\ CompleteSym(e.sym) /\ e.ok /\ e.back = e.sym
Next == /\ l <= Len(Rec)
        /\ (LET e == Rec[l] IN
             /\ "panic" \notin DOMAIN e
             /\ IF e.ev = "parse" THEN ParseOK(e) /\ (IF ParseConf(e) THEN TRUE ELSE PrintT(<<"NOTE", "parser verdict differs from the format specification", l>>))
                ELSE IF e.ev = "roundtrip" THEN RoundTripOK(e)
                ELSE FALSE) = TRUE
        /\ l' = l + 1
Spec == Init /\ [][Next]_l
Accepted == LET d == TLCGet("stats").diameter IN
   IF d - 1 = Len(Rec) THEN PrintT(<<"TRACE", "accepted", d - 1>>)
   ELSE PrintT(<<"TRACE", "rejected", d>>)
=============================================================================

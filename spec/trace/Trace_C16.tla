---------------------------- MODULE Trace_C16 ----------------------------
(* impl -> spec for C16: one event per call of simplify on a complete branch-free 3-D D-set with
   spherical tiles and vertex figures (checked here: domain).  If a D-set is returned it is
   again such a manifold.  On pseudo-toroidal covers: a connected result has one tile, one
   vertex and no 2-orbit of length 2 on (0,1), (1,2), (2,3).  When the input's group is finite or
   the input is a pseudo-toroidal cover of a corpus symbol, a connected result has the same
   first homology and the same number of index-2 (and, few generators, index-3) classes as the
   input (Smith form and brute-force homomorphisms on the library's two presentations).  For
   corpus inputs the canonical minimal image of the result is the same for every numbering. *)
EXTENDS Mfd3, Action, Json, IOUtils
Rec == ndJsonDeserialize(IOEnv.TRACE)
VARIABLE l
Init == l = 1
AsSym(S) == IF "v" \in DOMAIN S THEN S ELSE [n |-> S.n, dim |-> S.dim, op |-> S.op, v |-> [i \in 1..S.dim |-> [d \in 1..S.n |-> 1]]]
SimplifyOK(e) ==
   LET I == AsSym(e.in) IN
   /\ Manifold3(I) /\ BranchFree(I)                                                      \* domain
   /\ (e.some =>
         LET O == AsSym(e.out) IN
         /\ Manifold3(O) /\ BranchFree(O)                                                 \* still a valid manifold
         /\ ((e.ptc /\ Connected(O)) => NTiles(O) = 1 /\ NVertices(O) = 1 /\ NoDegree2(O))
         /\ ((e.same_group /\ Connected(O)) =>
               /\ H1(e.pres_out) = H1(e.pres_in)
               /\ ((e.pres_in.ng <= 8 /\ e.pres_out.ng <= 8) =>
                     NumSubgroupClasses(e.pres_out.ng, 2, e.pres_out.rels) = NumSubgroupClasses(e.pres_in.ng, 2, e.pres_in.rels))
               /\ ((e.pres_in.ng <= 4 /\ e.pres_out.ng <= 4) =>
                     NumSubgroupClasses(e.pres_out.ng, 3, e.pres_out.rels) = NumSubgroupClasses(e.pres_in.ng, 3, e.pres_in.rels))))
   /\ \A k \in 1..Len(e.variants) : LET w == e.variants[k] IN
         "panic" \notin DOMAIN w /\ (e.corpus => (w.some = e.some /\ w.key = e.key))      \* corpus: same for every numbering
Next == /\ l <= Len(Rec)
        /\ ("panic" \notin DOMAIN Rec[l] /\ SimplifyOK(Rec[l])) = TRUE
        /\ l' = l + 1
Spec == Init /\ [][Next]_l
Accepted == LET d == TLCGet("stats").diameter IN
   IF d - 1 = Len(Rec) THEN PrintT(<<"TRACE", "accepted", d - 1>>)
   ELSE PrintT(<<"TRACE", "rejected", d>>)
=============================================================================

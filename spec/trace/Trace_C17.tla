---------------------------- MODULE Trace_C17 ----------------------------
(* impl -> spec for C17: one event per 3-D symbol of the domain (spherical tiles and vertex
   figures — checked here on the sub-symbols — and branching in {1,2,3,4,6}) with the verdict
   of the euclidicity test for the symbol, for renumberings of it, for its dual and for covers
   of it.  The verdict class is the same for renumberings and the dual; along covers yes and no
   never meet; a yes is backed by a certificate checked here: a branch-free oriented covering
   whose presentation has H1 = Z^3 and the subgroup counts of Z^3 (7 of index 2; 13 of index 3
   when few generators); every corpus symbol gets yes; a panic is never accepted. *)
EXTENDS Mfd3, Prism, Action, Json, IOUtils
Rec == ndJsonDeserialize(IOEnv.TRACE)
VARIABLE l
Init == l = 1
Classes3 == {"yes", "no", "maybe"}
\* spherical 2-D sub-symbols: positive curvature and not a tear-drop / spindle
GoodSphere(T) == Orbifold(T).curv[1] > 0
InDomain(S) == /\ CompleteSym(S) /\ S.dim = 3 /\ Connected(S)
               /\ \A i \in 1..3, d \in Chambers(S) : S.v[i][d] \in {1, 2, 3, 4, 6}
               /\ \A d \in Chambers(S) : GoodSphere(Sub(S, <<0,1,2>>, d)) /\ GoodSphere(Sub(S, <<1,2,3>>, d))
CoveringOK(C, S) == CompleteSym(C) /\ Connected(C) /\ C.n % S.n = 0 /\ IsCoverOf(C, S)
CertOK(c, S) ==
   /\ CoveringOK(c.oc, S) /\ CoveringOK(c.cov, c.oc) /\ Oriented(c.cov) /\ BranchFree(c.cov)
   /\ H1(c.pres) = <<0, 0, 0>>
   /\ (c.pres.ng <= 8 => NumSubgroupClasses(c.pres.ng, 2, c.pres.rels) = 7)
   /\ (c.pres.ng <= 4 => NumSubgroupClasses(c.pres.ng, 3, c.pres.rels) = 13)
EuclidOK(e) ==
   LET S == e.sym IN
   /\ InDomain(S)
   /\ e.verdict \in Classes3
   /\ (e.corpus => e.verdict = "yes")
   \* the prism family: known euclidean by construction (curvature 0 in 2-D, covering of the prism symbol)
   /\ ("prism_of" \in DOMAIN e => Euclidean2D(e.prism_of) /\ IsCoverOf(S, Prism(e.prism_of)) /\ e.verdict = "yes")
   \* prisms over 2-D symbols of any geometry: the input is the prism of the specification; over a base of curvature 0 it is
   \* euclidean by construction, over any other base the tiling lives in S^2 x R or H^2 x R.  Comparing the verdict with
   \* that is beyond the statement (bases up to 8 chambers are outside the corpus; a yes needs the certificate checked
   \* above) and reported as a NOTE only
   /\ ("prism_over" \in DOMAIN e =>
         /\ CompleteSym(e.prism_over) /\ e.prism_over.dim = 2 /\ S = Prism(e.prism_over)
         /\ (IF Euclidean2D(e.prism_over) # (e.verdict = "yes")
             THEN PrintT(<<"NOTE", "conformance: prism over a 2-D symbol: verdict yes does not coincide with curvature 0 of the base", l>>) ELSE TRUE))
   /\ (e.verdict = "yes" => CertOK(e.cert, S))
   /\ \A k \in 1..Len(e.variants) : LET w == e.variants[k] IN
         /\ "panic" \notin DOMAIN w
         /\ (w.how = "dual" => w.sym = Dual(S))                           \* the relative really is the dual (derived::dual) /\ w.verdict \in Classes3
         /\ IF w.how = "cover" THEN ~({w.verdict, e.verdict} = {"yes", "no"})           \* never contradictory along covers
            ELSE w.verdict = e.verdict                                                  \* renumbering, dual
Next == /\ l <= Len(Rec)
        /\ ("panic" \notin DOMAIN Rec[l] /\ EuclidOK(Rec[l])) = TRUE
        /\ l' = l + 1
Spec == Init /\ [][Next]_l
Accepted == LET d == TLCGet("stats").diameter IN
   IF d - 1 = Len(Rec) THEN PrintT(<<"TRACE", "accepted", d - 1>>)
   ELSE PrintT(<<"TRACE", "rejected", d>>)
=============================================================================

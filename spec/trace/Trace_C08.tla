---------------------------- MODULE Trace_C08 ----------------------------
(* impl -> spec for C08: one event per base symbol with what the library says about it
   (curvature, orbifold symbol parsed into cones / boundary cycles / handles / cross-caps, the
   three geometry predicates) and the same for its lineage: renumberings, the dual, covers. *)
EXTENDS Surface2D, Json, IOUtils
Rec == ndJsonDeserialize(IOEnv.TRACE)
VARIABLE l
Init == l = 1
Frac(c) == <<c[1], c[2]>>
\* one symbol against the definitions
SelfOK(g) ==
   LET S == g.sym  Q == Orbifold(S)  o == g.orb  k == Frac(g.curv) IN
   /\ CompleteSym(S) /\ S.dim = 2
   /\ k = Q.curv                                              \* curvature as defined
   /\ k = FMul(ChiOfSymbol(o), 2)                             \* Gauss-Bonnet between the two answers of the library
   /\ Q.curv = FMul(Q.chiOrb, 2)                              \* and inside the specification
   /\ BagOfSeq(o.cones) = Q.cones                             \* the symbol names the orbifold of S
   /\ Len(o.bnds) = Q.nbnd
   /\ Bag({<<j, BagOfSeq(o.bnds[j])>> : j \in 1..Len(o.bnds)}) = Q.cornerBags
   /\ (IF Q.orientable THEN o.crosscaps = 0 /\ 2 * o.handles = Q.x ELSE o.handles = 0 /\ o.crosscaps = Q.x)
   /\ (g.euc <=> k[1] = 0) /\ (g.hyp <=> k[1] < 0)
   /\ (g.sph <=> (k[1] > 0 /\ ~BadSymbol(o)))
GeomOK(e) ==
   /\ SelfOK(e.base)
   /\ \A j \in 1..Len(e.variants) : LET w == e.variants[j] IN
         /\ "panic" \notin DOMAIN w
         /\ SelfOK(w)
         \* the relatives really are what they are called (derived::dual, covers::covers, the harness' renumbering)
         /\ (w.how = "dual" => w.sym = Dual(e.base.sym))
         /\ (w.how = "renumber" => Isomorphic(w.sym, e.base.sym))
         /\ (w.how \notin {"dual", "renumber"} => IsCoverOf(w.sym, e.base.sym))
         /\ IF w.how \in {"renumber", "dual"}
            THEN Frac(w.curv) = Frac(e.base.curv) /\ SameOrbifold(w.orb, e.base.orb)
                 /\ w.euc = e.base.euc /\ w.hyp = e.base.hyp /\ w.sph = e.base.sph
            ELSE Frac(w.curv) = FMul(Frac(e.base.curv), w.sheets)       \* cover: curvature times sheets
                 /\ w.sym.n = w.sheets * e.base.sym.n
Next == /\ l <= Len(Rec)
        /\ ("panic" \notin DOMAIN Rec[l] /\ "panic" \notin DOMAIN Rec[l].base /\ GeomOK(Rec[l])) = TRUE
        /\ l' = l + 1
Spec == Init /\ [][Next]_l
Accepted == LET d == TLCGet("stats").diameter IN
   IF d - 1 = Len(Rec) THEN PrintT(<<"TRACE", "accepted", d - 1>>)
   ELSE PrintT(<<"TRACE", "rejected", d>>)
=============================================================================

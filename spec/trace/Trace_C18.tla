---------------------------- MODULE Trace_C18 ----------------------------
(* impl -> spec for C18.  Matrices have integer entries (|a| <= 10^9 < 2^31); results are big
   integers / rationals given as decimal digit arrays.  Every identity is checked modulo enough
   primes of ModArith!PRIMES for the digit lengths involved, so agreement is equality.
   Backends: "i64", "bigrational", "f61" (prime field Z/61: results are residues, checked in
   the field itself).
     det       : determinant exact
     rank      : rank over Q (or over Z/61)
     nullspace : exactly cols - rank columns, A*N = 0, columns independent
     solve     : Some(X) => A*X = B; over a field None => rank[A|B] > rank A
     inverse   : Some(X) => A*X = I; over a field None => A singular
     modsolve  : p-adic solver: Some(X) => A*X = B; None only for systems whose determinants have a common factor > 1
     field     : Z/61: canonical residues of arbitrary integers and the field operations *)
EXTENDS ModArith, PGraph, Json, IOUtils
Rec == ndJsonDeserialize(IOEnv.TRACE)
VARIABLES l, rseen
Init == l = 1 /\ rseen = <<>> /\ Assert(PrimesOK, "prime table")
NPr == Len(PRIMES)
NRowsM(A) == Len(A)
NColsM(A) == IF Len(A) = 0 THEN 0 ELSE Len(A[1])
\* digits needed for any minor / cleared product: generous bounds from the logged digit lengths
BigDigits(x) == Len(x.d)
MaxDig(X) == LET RECURSIVE Mi(_), Mj(_,_)
                 Mj(i, j) == IF j = 0 THEN 0 ELSE LET a == BigDigits(X[i][j].n) + BigDigits(X[i][j].q) b == Mj(i, j-1) IN IF a > b THEN a ELSE b
                 Mi(i) == IF i = 0 THEN 0 ELSE LET a == Mj(i, Len(X[i])) b == Mi(i-1) IN IF a > b THEN a ELSE b
             IN Mi(Len(X))
IntMatMod(A, p) == MatMod(A, p)
\* rank over Q of an integer matrix (entries < 2^31): 10 digits per entry, n factors
RankQ(A) == LET k == NPrimesFor(11 * (IF NRowsM(A) < NColsM(A) THEN NRowsM(A) ELSE NColsM(A)) + 2)
                f(i) == RankMod(IntMatMod(A, PRIMES[i]), PRIMES[i]) IN MaxOver(f, k)
\* residue of a rational entry [n |-> bigint, q |-> positive bigint] times a common factor: we avoid inverses by
\* clearing denominators column-wise: D_j = product of the denominators in column j
ColDen(X, j, p) == LET RECURSIVE Pd(_) Pd(i) == IF i = 0 THEN 1 ELSE (Res(X[i][j].q, p) * Pd(i-1)) % p IN Pd(Len(X))
Cleared(X, i, j, p) == LET RECURSIVE Pd(_) Pd(k) == IF k = 0 THEN 1 ELSE ((IF k = i THEN 1 ELSE Res(X[k][j].q, p)) * Pd(k-1)) % p
                       IN (Res(X[i][j].n, p) * Pd(Len(X))) % p
ClearedMat(X, p) == [i \in 1..Len(X) |-> [j \in 1..Len(X[i]) |-> Cleared(X, i, j, p)]]
\* (A * X)[r][j] * D_j == B[r][j] * D_j  (mod p)
RECURSIVE Dot(_,_,_,_,_,_)
Dot(A, X, r, j, p, k) == IF k = 0 THEN 0 ELSE (Dot(A, X, r, j, p, k-1) + Mod(A[r][k], p) * Cleared(X, k, j, p)) % p
ProductIs(A, X, B, p) == \A r \in 1..NRowsM(A), j \in 1..NColsM(X) :
      Dot(A, X, r, j, p, NColsM(A)) = (Mod(B[r][j], p) * ColDen(X, j, p)) % p
DensPositive(X) == \A i \in 1..Len(X) : \A j \in 1..Len(X[i]) : X[i][j].q.s = 1
\* digits of a cleared term a[r][k] * num[k][j] * prod_{i # k} den[i][j]: 10 + max numerator digits + the largest column sum of denominator digits
MaxNumDig(X) == LET RECURSIVE Mi(_), Mj(_,_)
                    Mj(i, j) == IF j = 0 THEN 0 ELSE LET a == BigDigits(X[i][j].n) b == Mj(i, j-1) IN IF a > b THEN a ELSE b
                    Mi(i) == IF i = 0 THEN 0 ELSE LET a == Mj(i, Len(X[i])) b == Mi(i-1) IN IF a > b THEN a ELSE b
                IN Mi(Len(X))
ColDenDig(X, j) == LET RECURSIVE S(_) S(i) == IF i = 0 THEN 0 ELSE BigDigits(X[i][j].q) + S(i-1) IN S(Len(X))
MaxColDenDig(X) == LET RECURSIVE Mx(_) Mx(j) == IF j = 0 THEN 0 ELSE LET a == ColDenDig(X, j) b == Mx(j-1) IN IF a > b THEN a ELSE b IN Mx(NColsM(X))
PrimesForProduct(A, X) == NPrimesFor(14 + MaxNumDig(X) + MaxColDenDig(X))
ProductExact(A, X, B) == /\ NRowsM(X) = NColsM(A) /\ DensPositive(X)
                         /\ \A i \in 1..PrimesForProduct(A, X) : ProductIs(A, X, B, PRIMES[i])
\* independence of the columns of a rational matrix: a rank modulo a prime never exceeds the rank over Q,
\* so full column rank modulo ANY prime proves independence
ColumnsIndependent(X, c) == \E i \in 1..12 : RankMod(ClearedMat(X, PRIMES[i]), PRIMES[i]) = c
Augment(A, B) == [i \in 1..Len(A) |-> A[i] \o B[i]]
IdM(n) == [i \in 1..n |-> [j \in 1..n |-> IF i = j THEN 1 ELSE 0]]
ZeroM(n, m) == [i \in 1..n |-> [j \in 1..m |-> 0]]
IsField(b) == b \in {"bigrational", "f61"}
(* --- Z/61: everything is computed in the field itself --- *)
F == 61
FMat(A) == MatMod(A, F)
FProd(A, X) == [i \in 1..Len(A) |-> [j \in 1..NColsM(X) |-> LET RECURSIVE S(_) S(k) == IF k = 0 THEN 0 ELSE (S(k-1) + A[i][k] * X[k][j]) % F IN S(NColsM(A))]]
FValid(X) == \A i \in 1..Len(X) : \A j \in 1..Len(X[i]) : X[i][j] \in 0..(F-1)

DetOK(e) == IF e.backend = "f61" THEN e.out \in 0..(F-1) /\ e.out = DetMod(FMat(e.a), F)
            ELSE LET k == NPrimesFor((IF BigDigits(e.out) > 10 * Len(e.a) THEN BigDigits(e.out) ELSE 10 * Len(e.a)) + 2) IN
                 \A i \in 1..k : DetMod(IntMatMod(e.a, PRIMES[i]), PRIMES[i]) = Res(e.out, PRIMES[i])
RankOK(e) == e.out = IF e.backend = "f61" THEN RankMod(FMat(e.a), F) ELSE RankQ(e.a)
NullOK(e) == LET A == e.a  N == e.out  m == NColsM(A) IN
   IF e.backend = "f61"
   THEN LET r == RankMod(FMat(A), F) IN
        /\ e.ncols = m - r /\ (e.ncols > 0 => (Len(N) = m /\ FValid(N) /\ FProd(FMat(A), N) = ZeroM(NRowsM(A), e.ncols) /\ RankMod(N, F) = e.ncols))
   ELSE LET r == RankQ(A) IN
        /\ e.ncols = m - r
        /\ (e.ncols > 0 => (Len(N) = m /\ ProductExact(A, N, ZeroM(NRowsM(A), e.ncols)) /\ ColumnsIndependent(N, e.ncols)))
SolveOK(e) == LET A == e.a  B == e.b IN
   IF e.backend = "f61"
   THEN IF e.some THEN Len(e.out) = NColsM(A) /\ FValid(e.out) /\ FProd(FMat(A), e.out) = FMat(B)
        ELSE RankMod(FMat(Augment(A, B)), F) > RankMod(FMat(A), F)
   ELSE IF e.some THEN ProductExact(A, e.out, B)
        ELSE (IsField(e.backend) => RankQ(Augment(A, B)) > RankQ(A))
InverseOK(e) == LET A == e.a  n == Len(A) IN
   IF e.backend = "f61"
   THEN IF e.some THEN FValid(e.out) /\ FProd(FMat(A), e.out) = IdM(n) ELSE DetMod(FMat(A), F) = 0
   ELSE IF e.some THEN ProductExact(A, e.out, IdM(n))
        ELSE (IsField(e.backend) => RankQ(A) < n)
\* Refusing is allowed only for a system that is singular modulo the solver's prime.  Which prime the solver uses is
\* not part of the statement (a private constant); what the statement implies is that all refused systems have a common
\* factor r > 1 in their determinants.  The harness logs r = gcd of the determinants of ALL refused systems of the run
\* and q with det(A) = q * r; the identity is verified by CRT, r > 1 is read from the digits (det(A) = 0 is singular
\* modulo every prime and needs no factor), and `rseen` keeps r the same along the trace.
BigGtOne(x) == x.s = 1 /\ x.d # <<1>> /\ x.d # <<0>> /\ Len(x.d) >= 1
DetIsProduct(A, q, r) == LET k == NPrimesFor(10 * Len(A) + 2 + BigDigits(q) + BigDigits(r)) IN
        \A i \in 1..k : DetMod(IntMatMod(A, PRIMES[i]), PRIMES[i]) = (Res(q, PRIMES[i]) * Res(r, PRIMES[i])) % PRIMES[i]
ModSolveOK(e) == LET A == e.a IN
   IF e.some THEN ProductExact(A, e.out, e.b)
   ELSE /\ DetIsProduct(A, e.q, e.r)
        /\ (e.q.s # 0 => BigGtOne(e.r))
FieldOK(e) == /\ e.ra \in 0..(F-1) /\ e.ra = Mod(e.a, F) /\ e.rb = Mod(e.b, F)       \* canonical representative of every integer
              /\ e.sum = (e.ra + e.rb) % F /\ e.diff = Mod(e.ra - e.rb, F) /\ e.prod = (e.ra * e.rb) % F
              /\ e.neg = Mod(0 - e.ra, F) /\ e.iszero = (e.ra = 0)
              /\ (e.rb # 0 => e.quot = (e.ra * InvMod(e.rb, F)) % F)
(* --- barycentric placement of a periodic graph (pgraphs.rs), a client of the p-adic solver ---
   event: dim, verts (ascending), edges [h, t, s] (distinct canonical edges h <= t with integer shift vectors),
   pos[i][k] = k-th coordinate of the position of verts[i] as a rational.  Statement: the first vertex sits at the
   origin and every vertex is the barycentre of its neighbours: deg(v) * p(v) = sum over incident half-edges of
   (p(other end) + shift), where an edge h -s-> t contributes (p(t) + s) at h and (p(h) - s) at t. *)
VIndex(e, v) == CHOOSE i \in 1..Len(e.verts) : e.verts[i] = v
\* cleared numerators for coordinate k: D_k = product of all denominators of that coordinate
CoordDen(e, k, p) == LET RECURSIVE Pd(_) Pd(i) == IF i = 0 THEN 1 ELSE (Res(e.pos[i][k].q, p) * Pd(i-1)) % p IN Pd(Len(e.verts))
CoordNum(e, i, k, p) == LET RECURSIVE Pd(_) Pd(j) == IF j = 0 THEN 1 ELSE ((IF j = i THEN 1 ELSE Res(e.pos[j][k].q, p)) * Pd(j-1)) % p
                        IN (Res(e.pos[i][k].n, p) * Pd(Len(e.verts))) % p
BaryEq(e, i, k, p) ==
   LET v == e.verts[i]  D == CoordDen(e, k, p)
       RECURSIVE Acc(_)
       \* <<degree, sum of cleared (neighbour position + shift)>> over the edges 1..j
       Acc(j) == IF j = 0 THEN <<0, 0>> ELSE
          LET ed == e.edges[j]  a == Acc(j-1)
              atHead == IF ed[1] = v THEN <<1, (CoordNum(e, VIndex(e, ed[2]), k, p) + Mod(ed[3][k], p) * D) % p>> ELSE <<0, 0>>
              atTail == IF ed[2] = v THEN <<1, (CoordNum(e, VIndex(e, ed[1]), k, p) + Mod(0 - ed[3][k], p) * D) % p>> ELSE <<0, 0>>
          IN <<a[1] + atHead[1] + atTail[1], (a[2] + atHead[2] + atTail[2]) % p>>
       tot == Acc(Len(e.edges))
   IN (Mod(tot[1], p) * CoordNum(e, i, k, p)) % p = tot[2]
BaryDigits(e) == LET RECURSIVE S(_,_) S(i, k) == IF i = 0 THEN 0 ELSE BigDigits(e.pos[i][k].q) + BigDigits(e.pos[i][k].n) + S(i-1, k)
                     RECURSIVE Mx(_) Mx(k) == IF k = 0 THEN 0 ELSE LET a == S(Len(e.verts), k) b == Mx(k-1) IN IF a > b THEN a ELSE b
                 IN Mx(e.dim)
BaryOK(e) == /\ \A k \in 1..e.dim : e.pos[1][k].n.s = 0                                   \* first vertex at the origin
             /\ \A i \in 1..Len(e.verts), k \in 1..e.dim : e.pos[i][k].q.s = 1
             /\ \A j \in 1..NPrimesFor(BaryDigits(e) + 8) : \A i \in 1..Len(e.verts), k \in 1..e.dim : BaryEq(e, i, k, PRIMES[j])
(* --- periodic graphs as data structures (PGraph.tla): beyond the listed properties, conformance level (NOTE) --- *)
Tri(x) == <<x[1], x[2], x[3]>>
PGraphConf(e) == LET E == EdgesOf([k \in 1..Len(e.input) |-> Tri(e.input[k])]) IN
   /\ [k \in 1..Len(e.edges) |-> Tri(e.edges[k])] = E
   /\ e.verts = VerticesOf(E) /\ e.gdim = e.dim
   /\ \A i \in 1..Len(e.verts) : [k \in 1..Len(e.inc[i]) |-> Tri(e.inc[i][k])] = Incidences(E, e.verts[i])
Check(e) == CASE e.ev = "det" -> DetOK(e) [] e.ev = "rank" -> RankOK(e) [] e.ev = "nullspace" -> NullOK(e)
              [] e.ev = "solve" -> SolveOK(e) [] e.ev = "inverse" -> InverseOK(e) [] e.ev = "modsolve" -> ModSolveOK(e)
              [] e.ev = "field" -> FieldOK(e) [] e.ev = "barycentric" -> BaryOK(e) [] e.ev = "echelon" -> TRUE
              [] e.ev = "pgraph" -> (IF PGraphConf(e) THEN TRUE ELSE PrintT(<<"NOTE", "periodic graph differs from PGraph.tla", e.input>>))
              [] OTHER -> FALSE
IsRefusal(e) == e.ev = "modsolve" /\ "panic" \notin DOMAIN e /\ ~e.some
Next == /\ l <= Len(Rec)
        /\ ("panic" \notin DOMAIN Rec[l] /\ Check(Rec[l])) = TRUE
        /\ (IsRefusal(Rec[l]) /\ rseen # <<>> => rseen[1] = Rec[l].r) = TRUE
        /\ rseen' = IF IsRefusal(Rec[l]) /\ rseen = <<>> THEN <<Rec[l].r>> ELSE rseen
        /\ l' = l + 1
Spec == Init /\ [][Next]_<<l, rseen>>
Accepted == LET d == TLCGet("stats").diameter IN
   IF d - 1 = Len(Rec) THEN PrintT(<<"TRACE", "accepted", d - 1>>)
   ELSE PrintT(<<"TRACE", "rejected", d>>)
=============================================================================

---------------------------- MODULE Trace_C11 ----------------------------
(* impl -> spec for C11 at API level.  A `group` event introduces a finitely presented group
   together with a permutation model: for the classical corpus the model and the group order
   are data (the specification checks that the model satisfies the relators and generates a
   group of exactly the stated order, so it is faithful); for the orbifold group of a spherical
   2-D symbol the order is 4 / curvature (computed here from the symbol) and the model is the
   regular table the library itself returned for the trivial subgroup, accepted only if it is
   a transitive action on exactly that many points in which every relator acts trivially.
   Every following `coset_table` event must then be the true coset table of its subgroup. *)
EXTENDS Action, Surface2D, Json, IOUtils
Rec == ndJsonDeserialize(IOEnv.TRACE)
VARIABLES l, cur
Init == l = 1 /\ cur = [ng |-> 0]
KnownOrder(e) == IF "sym" \in DOMAIN e
                 THEN LET k == Orbifold(e.sym).curv IN IF k[1] > 0 /\ (4 * k[2]) % k[1] = 0 THEN (4 * k[2]) \div k[1] ELSE -1
                 ELSE e.order
GroupOK(e) ==
   LET n == KnownOrder(e) IN
   /\ n >= 1
   /\ ModelOK(e.act, e.ng, e.rels)
   /\ IF "sym" \in DOMAIN e
      THEN ModelPoints(e.act) = n /\ OrbitH(e.act, e.ng, {1}, {1}) = 1..n        \* regular action of the right size
      ELSE Cardinality(ModelGroup(e.act)) = n                                   \* faithful model of the known order
TableOK(e) ==
   LET T == e.table
       H == SubgroupOf(cur.act, e.subs)
       idx == cur.order \div Cardinality(H)
   IN /\ T.gens = cur.ng
      /\ IsPermAction(T)                                       \* permutations, inverse generators act inversely
      /\ Transitive(T)
      /\ SatisfiesRelators(T, cur.rels)                        \* every relator returns to its row, from every row
      /\ FixesBase(T, e.subs)                                  \* every generator of H fixes row 0
      /\ NRows(T) = idx                                        \* exactly [G:H] rows
      /\ Len(e.reps) = NRows(T)
      /\ \A r \in RowsOf(T) : WordOK(T, e.reps[r + 1]) /\ TraceT(T, 0, e.reps[r + 1]) = r
Next == /\ l <= Len(Rec)
        /\ ("panic" \notin DOMAIN Rec[l]) = TRUE
        /\ IF Rec[l].ev = "group"
           THEN GroupOK(Rec[l]) = TRUE /\ cur' = [ng |-> Rec[l].ng, rels |-> Rec[l].rels, act |-> Rec[l].act, order |-> KnownOrder(Rec[l])]
           ELSE (Rec[l].ev = "coset_table" /\ TableOK(Rec[l])) = TRUE /\ UNCHANGED cur
        /\ l' = l + 1
Spec == Init /\ [][Next]_<<l, cur>>
Accepted == LET d == TLCGet("stats").diameter IN
   IF d - 1 = Len(Rec) THEN PrintT(<<"TRACE", "accepted", d - 1>>)
   ELSE PrintT(<<"TRACE", "rejected", d>>)
=============================================================================

---------------------------- MODULE Trace_C12h ----------------------------
(* impl -> spec for C12 with hooks: every call of derived_table made by the low-index enumeration
   (cfg rust_dsymbols_verif: one `derive` event with the parent table, the edge from -g-> to, and
   the result) is the transition function of the machine of LowIndex.tla: the result is the
   deductive closure of the parent with the new edge, and None exactly when that closure is
   contradictory (or the edge is not free).  For presentations whose relators all have at least two
   letters the closure is unique and the code's queue reaches it (lemma QueueIsClosure), so no lawful
   implementation can return anything else, and the parent of every call is itself a closed table.
   With a relator of length one the closure may lawfully be lazy; see DeriveOK. *)
EXTENDS LowIndex, Json, IOUtils
Rec == ndJsonDeserialize(IOEnv.TRACE)
VARIABLES l, X
Init == l = 1 /\ X = {}
AsTable(k, rows) == [gens |-> k, img |-> rows]
\* no fully defined relator instance of the table closes on two different rows
NoContradiction(T, Xs) == Contradictions(T, Xs) = {}
DeriveOK(e) ==
   LET T == AsTable(e.gens, e.table)
       T1 == IF e.to = NRows(T) THEN AddRow(T) ELSE T
       want == Derive(T1, X, e.from, e.to, e.g)
   IN IF ~HasUnitRelator(X)
      THEN \* every relator has at least two letters: the queue of derived_table computes THE deductive closure
           \* (LowIndex!QueueIsClosure), which is unique - no lawful implementation can return anything else
           /\ (T # Root(e.gens) => ClosedTable(T, X))
           /\ IF want = Fail THEN ~e.some ELSE e.some /\ AsTable(e.gens, e.out) = want
      ELSE \* a relator of length one: a fresh row's loop may lawfully be deduced later (lazy closure).  Statement level:
           \* None only if the closure is contradictory; a returned table contains the new edge, lies inside the closure
           \* and has no contradiction of its own.  Equality with the code's queue discipline is conformance level.
           LET wantQ == DeriveQ(T1, X, e.from, e.to, e.g)
               out == AsTable(e.gens, e.out)
           IN /\ (~e.some => want = Fail)
              /\ (e.some => /\ Entry(T1, e.from, e.g) = Undef /\ Entry(T1, e.to, -e.g) = Undef
                            /\ ExtendsT(out, Join(T1, e.from, e.to, e.g)) /\ NoContradiction(out, X)
                            /\ (want # Fail => ExtendsT(want, out)))
              /\ (IF (IF wantQ = Fail THEN ~e.some ELSE e.some /\ out = wantQ) THEN TRUE
                  ELSE PrintT(<<"NOTE", "derived_table differs from LowIndex!DeriveQ", l>>))
Next == /\ l <= Len(Rec)
        /\ IF Rec[l].ev = "header" THEN X' = ExpandedRels(Rec[l].rels)
           ELSE (Rec[l].ev = "derive" /\ DeriveOK(Rec[l])) = TRUE /\ UNCHANGED X
        /\ l' = l + 1
Spec == Init /\ [][Next]_<<l, X>>
Accepted == LET d == TLCGet("stats").diameter IN
   IF d - 1 = Len(Rec) THEN PrintT(<<"TRACE", "accepted", d - 1>>)
   ELSE PrintT(<<"TRACE", "rejected", d>>)
=============================================================================

---------------------------- MODULE Trace_C12h ----------------------------
(* impl -> spec for C12 with hooks: every call of derived_table made by the low-index enumeration
   (cfg rust_dsymbols_verif: one `derive` event with the parent table, the edge from -g-> to, and
   the result) is the transition function of the machine of LowIndex.tla: the result is the
   deductive closure of the parent with the new edge, and None exactly when that closure is
   contradictory (or the edge is not free).  The closure is unique, so no lawful implementation
   can return anything else.  Also: the parent of every call is itself a closed table (it is a
   node of the tree). *)
EXTENDS LowIndex, Json, IOUtils
Rec == ndJsonDeserialize(IOEnv.TRACE)
VARIABLES l, X
Init == l = 1 /\ X = {}
AsTable(k, rows) == [gens |-> k, img |-> rows]
DeriveOK(e) ==
   LET T == AsTable(e.gens, e.table)
       T1 == IF e.to = NRows(T) THEN AddRow(T) ELSE T
       want == Derive(T1, X, e.from, e.to, e.g)
   IN /\ (T # Root(e.gens) => ClosedTable(T, X))      \* (the root is not closed when a relator has length 1)
      /\ IF want = Fail THEN ~e.some ELSE e.some /\ AsTable(e.gens, e.out) = want
Next == /\ l <= Len(Rec)
        /\ IF Rec[l].ev = "header" THEN X' = ExpandedRels(Rec[l].rels)
           ELSE (Rec[l].ev = "derive" /\ DeriveOK(Rec[l])) = TRUE /\ UNCHANGED X
        /\ l' = l + 1
Spec == Init /\ [][Next]_<<l, X>>
Accepted == LET d == TLCGet("stats").diameter IN
   IF d - 1 = Len(Rec) THEN PrintT(<<"TRACE", "accepted", d - 1>>)
   ELSE PrintT(<<"TRACE", "rejected", d>>)
=============================================================================

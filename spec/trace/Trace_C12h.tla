---------------------------- MODULE Trace_C12h ----------------------------
(* impl -> spec for C12 with hooks: every call of derived_table made by the low-index enumeration
   (cfg rust_dsymbols_verif: one `derive` event with the parent table, the edge from -g-> to, and
   the result) is the transition function of the machine of LowIndex.tla: the code's result equals
   LowIndex!DeriveQ (the queue discipline, transcribed) and, for presentations whose relators all have at least two
   letters, the unique deductive closure LowIndex!Derive (lemma QueueIsClosure).  See "Level" below for what is
   demanded and what is only noted. *)
EXTENDS LowIndex, Json, IOUtils
Rec == ndJsonDeserialize(IOEnv.TRACE)
VARIABLES l, X
Init == l = 1 /\ X = {}
AsTable(k, rows) == [gens |-> k, img |-> rows]
(* Level.  Statement level (a rejection is a violation): derived_table may return None only if the deductive closure of the
   parent with the new edge is contradictory — pruning a consistent branch loses subgroup classes — and a returned table
   must contain the new edge and nothing but forced deductions (it lies inside the closure whenever the closure is
   consistent).  Conformance level (NOTE): the returned table IS the closure resp. what the code's queue computes (DeriveQ),
   it has no contradiction of its own, and the parent is a closed table.  An implementation that deduces lazily (for
   instance nothing at all when the edge opens a fresh row) still enumerates every class exactly once, provided complete
   tables are what the API-level clauses of Trace_C12 demand; such a variation was observed (a seeded change that became
   lawful once F15 was repaired) and must not be reported. *)
DeriveOK(e) ==
   LET T == AsTable(e.gens, e.table)
       T1 == IF e.to = NRows(T) THEN AddRow(T) ELSE T
       want == Derive(T1, X, e.from, e.to, e.g)
       out == AsTable(e.gens, e.out)
   IN /\ (~e.some => want = Fail)
      /\ (e.some => /\ Entry(T1, e.from, e.g) = Undef /\ Entry(T1, e.to, -e.g) = Undef
                    /\ ExtendsT(out, Join(T1, e.from, e.to, e.g))
                    /\ (want # Fail => ExtendsT(want, out)))
DeriveConf(e) ==
   LET T == AsTable(e.gens, e.table)
       T1 == IF e.to = NRows(T) THEN AddRow(T) ELSE T
       wantQ == DeriveQ(T1, X, e.from, e.to, e.g)
       out == AsTable(e.gens, e.out)
   IN /\ (IF wantQ = Fail THEN ~e.some ELSE e.some /\ out = wantQ)
      /\ (~HasUnitRelator(X) => /\ (T # Root(e.gens) => ClosedTable(T, X))
                                /\ wantQ = Derive(T1, X, e.from, e.to, e.g))
Next == /\ l <= Len(Rec)
        /\ IF Rec[l].ev = "header" THEN X' = ExpandedRels(Rec[l].rels)
           ELSE /\ (Rec[l].ev = "derive" /\ DeriveOK(Rec[l])) = TRUE
                /\ (IF DeriveConf(Rec[l]) THEN TRUE ELSE PrintT(<<"NOTE", "derived_table differs from LowIndex!DeriveQ", l>>)) = TRUE
                /\ UNCHANGED X
        /\ l' = l + 1
Spec == Init /\ [][Next]_<<l, X>>
Accepted == LET d == TLCGet("stats").diameter IN
   IF d - 1 = Len(Rec) THEN PrintT(<<"TRACE", "accepted", d - 1>>)
   ELSE PrintT(<<"TRACE", "rejected", d>>)
=============================================================================

---------------------------- MODULE Trace_C03 ----------------------------
(* impl -> spec for C03.  Each event is one call of canonical() on a connected symbol together
   with canonical() of its result.  The state is the workspace of canonical forms seen so far,
   keyed by isomorphism class: for small symbols the key is the specification's own complete
   invariant Canon (DSym.tla, lemmas in MC_Canon); for large ones (covers with hundreds of
   chambers) the key is the lineage class — a base symbol and explicit renumberings of it,
   each verified as such.  The workspace invariant is the statement itself: equal forms iff
   same class. *)
EXTENDS DSym, Json, IOUtils
Rec == ndJsonDeserialize(IOEnv.TRACE)
VARIABLES l, table, base
vars == <<l, table, base>>
Init == l = 1 /\ table = {} /\ base = {}
\* out is a relabelling of in: verified through the logged chamber map when it fits, else searched
IsRelabellingOf(e) ==
   \* (IF, not \/: inside an action TLC would evaluate both disjuncts)
   IF Len(e.map) = e.in.n /\ IsRenumbering(e.in, e.out, e.map) THEN TRUE ELSE Isomorphic(e.in, e.out)
\* big symbols: the input really is the stated renumbering of the class' base symbol
LineageOK(e) == IF e.lin.perm = <<>> THEN \A b \in base : b[1] # e.lin.class
                ELSE \E b \in base : b[1] = e.lin.class /\ Len(e.lin.perm) = e.in.n /\ IsRenumbering(b[2], e.in, e.lin.perm)
Key(e) == IF e.big THEN <<"lineage", e.lin.class>> ELSE <<"canon", Canon(e.in)>>
Canonical(e) ==
   /\ CompleteSym(e.in) /\ Connected(e.in)
   /\ CompleteSym(e.out) /\ e.out.n = e.in.n /\ e.out.dim = e.in.dim
   /\ IsRelabellingOf(e)                          \* the form is isomorphic to the input
   /\ e.fix = e.out                               \* and a fixed point
   /\ (e.big => LineageOK(e))
   \* equal forms iff same class; for large symbols the class key is only the lineage (two covers of different symbols
   \* may well be isomorphic), so only "same class => same form" is required of them
   /\ LET k == Key(e) IN \A p \in table : IF e.big THEN (p[1] = k => p[2] = e.out) ELSE ((p[1] = k) <=> (p[2] = e.out))
Next == /\ l <= Len(Rec)
        /\ ("panic" \notin DOMAIN Rec[l] /\ Canonical(Rec[l])) = TRUE
        /\ table' = table \cup {<<Key(Rec[l]), Rec[l].out>>}
        /\ base' = (IF Rec[l].big /\ Rec[l].lin.perm = <<>> THEN base \cup {<<Rec[l].lin.class, Rec[l].in>>} ELSE base)
        /\ l' = l + 1
Spec == Init /\ [][Next]_vars
Accepted == LET d == TLCGet("stats").diameter IN
   IF d - 1 = Len(Rec) THEN PrintT(<<"TRACE", "accepted", d - 1>>)
   ELSE PrintT(<<"TRACE", "rejected", d>>)
=============================================================================

---------------------------- MODULE Trace_C03 ----------------------------
(* impl -> spec for C03.  Each event is one call of canonical() on a connected symbol together
   with canonical() of its result.  The state is the workspace of canonical forms seen so far,
   keyed by isomorphism class: for small symbols the key is the specification's own complete
   invariant Canon (DSym.tla, lemmas in MC_Canon); for large ones (covers with hundreds of
   chambers) the key is the lineage class — a base symbol and explicit renumberings of it,
   each verified as such.  The workspace invariant is the statement itself: equal forms iff
   same class. *)
EXTENDS DSym, Json, IOUtils
Rec == ndJsonDeserialize(IOEnv.TRACE)
VARIABLES l, table, base
vars == <<l, table, base>>
Init == l = 1 /\ table = {} /\ base = {}
\* out is a relabelling of in: verified through the logged chamber map when it fits, else searched
IsRelabellingOf(e) ==
   \* (IF, not \/: inside an action TLC would evaluate both disjuncts)
   IF Len(e.map) = e.in.n /\ IsRenumbering(e.in, e.out, e.map) THEN TRUE ELSE Isomorphic(e.in, e.out)
\* big symbols: the input really is the stated renumbering of the class' base symbol
LineageOK(e) == IF e.lin.perm = <<>> THEN \A b \in base : b[1] # e.lin.class
                ELSE \E b \in base : b[1] = e.lin.class /\ Len(e.lin.perm) = e.in.n /\ IsRenumbering(b[2], e.in, e.lin.perm)
Key(e) == IF e.big THEN <<"lineage", e.lin.class>> ELSE <<"canon", Canon(e.in)>>
Canonical(e) ==
   /\ CompleteSym(e.in) /\ Connected(e.in)
   /\ CompleteSym(e.out) /\ e.out.n = e.in.n /\ e.out.dim = e.in.dim
   /\ IsRelabellingOf(e)                          \* the form is isomorphic to the input
   /\ e.fix = e.out                               \* and a fixed point
   /\ (e.big => LineageOK(e))
   \* equal forms iff same class; for large symbols the class key is only the lineage (two covers of different symbols
   \* may well be isomorphic), so only "same class => same form" is required of them
   /\ LET k == Key(e) IN \A p \in table : IF e.big THEN (p[1] = k => p[2] = e.out) ELSE ((p[1] = k) <=> (p[2] = e.out))
\* family event: one symbol and several renumberings of it, judged on its own (no workspace): every member's form is a
\* relabelling of the member (witness map, else search), a fixed point, and ALL members have the same form
MemberOK(m) == /\ CompleteSym(m.in) /\ CompleteSym(m.out) /\ m.fix = m.out
               /\ (IF Len(m.map) = m.in.n /\ IsRenumbering(m.in, m.out, m.map) THEN TRUE ELSE Isomorphic(m.in, m.out))
Family(e) == /\ Connected(e.members[1].in)
             /\ \A k \in 1..Len(e.members) : "panic" \notin DOMAIN e.members[k] /\ MemberOK(e.members[k]) /\ e.members[k].out = e.members[1].out
             /\ \A k \in 2..Len(e.members) : Len(e.members[k].perm) = e.members[1].in.n /\ IsRenumbering(e.members[1].in, e.members[k].in, e.members[k].perm)
Next == /\ l <= Len(Rec)
        /\ IF Rec[l].ev = "canonical_family"
           THEN ("panic" \notin DOMAIN Rec[l] /\ Family(Rec[l])) = TRUE /\ UNCHANGED <<table, base>>
           ELSE /\ ("panic" \notin DOMAIN Rec[l] /\ Canonical(Rec[l])) = TRUE
                /\ table' = table \cup {<<Key(Rec[l]), Rec[l].out>>}
                /\ base' = (IF Rec[l].big /\ Rec[l].lin.perm = <<>> THEN base \cup {<<Rec[l].lin.class, Rec[l].in>>} ELSE base)
        /\ l' = l + 1
Spec == Init /\ [][Next]_vars
Accepted == LET d == TLCGet("stats").diameter IN
   IF d - 1 = Len(Rec) THEN PrintT(<<"TRACE", "accepted", d - 1>>)
   ELSE PrintT(<<"TRACE", "rejected", d>>)
=============================================================================

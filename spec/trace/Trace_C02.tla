---------------------------- MODULE Trace_C02 ----------------------------
(* impl -> spec for C02: the answers of every concrete representation of a D-set / D-symbol
   to the basic queries are the values of the definitions in DSym.tla, None (-1) exactly out
   of range; traversals obey the laws of the statement (statement level) and agree with the
   reference machine of Traversal.tla (conformance level). *)
EXTENDS Traversal, Json, IOUtils
Rec == ndJsonDeserialize(IOEnv.TRACE)
VARIABLE l
Init == l = 1
None == -1
\* tables are indexed from 1: entry [i+1][d+1] answers the query (i, d) for i in 0..dim+1, d in 0..n+1
InRangeI(S, i) == i \in 0..S.dim
InRangeD(S, d) == d \in 1..S.n
Opt(x) == IF x = 0 THEN None ELSE x      \* an undefined image is reported as None

SetTableOK(S, T) ==
   /\ \A i \in 0..(S.dim+1), d \in 0..(S.n+1) :
         T.op[i+1][d+1] = IF InRangeI(S,i) /\ InRangeD(S,d) THEN Opt(Op(S,i,d)) ELSE None
   /\ \A i, j \in 0..(S.dim+1), d \in 0..(S.n+1) :
         T.r[i+1][j+1][d+1] = IF InRangeI(S,i) /\ InRangeI(S,j) /\ InRangeD(S,d) THEN Opt(R(S,i,j,d)) ELSE None
SymTableOK(S, T) ==
   /\ SetTableOK(S, T)
   /\ \A i, j \in 0..(S.dim+1), d \in 0..(S.n+1) :
         IF InRangeI(S,i) /\ InRangeI(S,j) /\ InRangeD(S,d)
         THEN /\ T.v[i+1][j+1][d+1] = VV(S,i,j,d)
              /\ T.m[i+1][j+1][d+1] = T.r[i+1][j+1][d+1] * T.v[i+1][j+1][d+1]       \* m = r * v
              /\ T.v[i+1][j+1][d+1] = T.v[j+1][i+1][d+1]                             \* symmetric
              /\ T.r[i+1][j+1][d+1] = T.r[j+1][i+1][d+1]
              /\ \A x \in {Op(S,i,d), Op(S,j,d)} :                                    \* constant on (i,j)-orbits
                    /\ T.r[i+1][j+1][x+1] = T.r[i+1][j+1][d+1]
                    /\ T.v[i+1][j+1][x+1] = T.v[i+1][j+1][d+1]
         ELSE T.v[i+1][j+1][d+1] = None /\ T.m[i+1][j+1][d+1] = None
PredsOK(S, T, isSym) ==
   /\ T.conn = Connected(S)
   /\ T.compl = (Complete(S) /\ (isSym => \A i \in 0..(S.dim-1), d \in Chambers(S) : V(S,i,d) >= 1))
   /\ T.loopl = Loopless(S)
   /\ T.wori = WeaklyOriented(S)
   /\ T.ori = Oriented(S)
SymOK(e) ==
   LET S == e.sym
       names == DOMAIN e.reps
       isSym(nm) == nm \in {"PartialDSym", "SimpleDSym", "PartialDSym2"}
   IN /\ IsDSet(S) /\ Commuting(S)
      /\ \A nm \in names : /\ "panic" \notin DOMAIN e.reps[nm]
                           /\ IF isSym(nm) THEN SymTableOK(S, e.reps[nm]) ELSE SetTableOK(S, e.reps[nm])
                           /\ PredsOK(S, e.reps[nm], isSym(nm))
      \* all representations of the same symbol answer identically
      /\ \A a, b \in names : /\ e.reps[a].op = e.reps[b].op /\ e.reps[a].r = e.reps[b].r
                             /\ (isSym(a) /\ isSym(b)) => e.reps[a].v = e.reps[b].v /\ e.reps[a].m = e.reps[b].m

ToSetI(q) == {q[k] : k \in 1..Len(q)}
TravOK(e) ==
   LET S == e.sym  I == ToSetI(e.idcs) IN
   /\ TraversalLaws(S, I, e.seeds, e.out)
   /\ ("orbit" \in DOMAIN e) => /\ ToSetI(e.orbit) = Orbit(S, I, e.seeds[1])
                                /\ Len(e.orbit) = Cardinality(ToSetI(e.orbit))
   \* orbit representatives: exactly one per component met by the seeds, nothing else
   /\ LET comps == SeedComps(S, I, e.seeds) IN
      /\ \A C \in comps : Cardinality({k \in 1..Len(e.reps) : e.reps[k] \in C}) = 1
      /\ \A k \in 1..Len(e.reps) : e.reps[k] \in UNION comps
TravConf(e) == e.out = TraversalOf(e.sym, ToSetI(e.idcs), e.seeds)

\* beyond the listed properties (conformance level): the constructors of derived.rs against the specification's operators
CoverBy(S, sm) == [n |-> 2 * S.n, dim |-> S.dim,
                   op |-> [i \in 1..(S.dim + 1) |-> [c \in 1..(2 * S.n) |-> LET d == ((c - 1) % S.n) + 1  sh == (c - 1) \div S.n IN
                              S.n * ((sh + sm[i][d]) % 2) + S.op[i][d]]],
                   v |-> S.v]      \* placeholder, degrees are compared through MM below
DerivedConf(e) ==
   LET S == e.sym IN
   /\ e.dual = Dual(S) /\ e.dualdual = S
   /\ \A k \in 1..Len(e.subs) : e.subs[k].out = Sub(S, [j \in 1..Len(e.subs[k].idcs) |-> e.subs[k].idcs[j]], e.subs[k].seed)
   /\ LET C == e.cover  W == CoverBy(S, e.sheetmap) IN
        /\ C.n = W.n /\ C.op = W.op
        /\ \A i \in 0..(S.dim - 1), c \in 1..C.n : MM(C, i, i + 1, c) = MM(S, i, i + 1, ((c - 1) % S.n) + 1)
\* preds: the five predicates alone, on D-sets with 6-9 chambers in several numberings (bipartiteness and connectivity
\* depend on every edge; a numbering can hide the one edge a slip forgets)
PredsEvOK(e) == LET S == e.sym IN
   /\ IsDSet(S) /\ Commuting(S)
   /\ \A nm \in DOMAIN e.reps : "panic" \notin DOMAIN e.reps[nm] /\ PredsOK(S, e.reps[nm], FALSE)
Next == /\ l <= Len(Rec)
        /\ (LET e == Rec[l] IN
             /\ "panic" \notin DOMAIN e
             /\ IF e.ev = "sym" THEN SymOK(e)
                ELSE IF e.ev = "preds" THEN PredsEvOK(e)
                ELSE IF e.ev = "trav" THEN TravOK(e) /\ (IF TravConf(e) THEN TRUE ELSE PrintT(<<"NOTE", "traversal order differs from the reference machine", l>>))
                ELSE IF e.ev = "derived" THEN (IF DerivedConf(e) THEN TRUE ELSE PrintT(<<"NOTE", "a constructor of derived.rs differs from the specification's operator", l>>))
                ELSE FALSE) = TRUE
        /\ l' = l + 1
Spec == Init /\ [][Next]_l
Accepted == LET d == TLCGet("stats").diameter IN
   IF d - 1 = Len(Rec) THEN PrintT(<<"TRACE", "accepted", d - 1>>)
   ELSE PrintT(<<"TRACE", "rejected", d>>)
=============================================================================

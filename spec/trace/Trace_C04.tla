---------------------------- MODULE Trace_C04 ----------------------------
(* impl -> spec for C04: minimal image, minimality test, automorphisms and morphism search of
   the library against the declarative notions of DSym.tla (coarsest degree-respecting
   congruence by partition refinement, quotient, morphisms determined by the image of chamber
   1 and then verified). *)
EXTENDS Fold, Json, IOUtils
Rec == ndJsonDeserialize(IOEnv.TRACE)
VARIABLE l
Init == l = 1
AsFun(q) == [d \in 1..Len(q) |-> q[d]]
MinimalOK(e) ==
   LET S == e.in  O == e.out
       cls == Coarsest(S)
       k == Cardinality({cls[d] : d \in Chambers(S)})
   IN /\ CompleteSym(S) /\ Connected(S) /\ CompleteSym(O)
      /\ IsCongruence(S, cls)                                  \* sanity of the oracle itself
      /\ O.n = k                                               \* size = number of classes
      /\ (e.ismin <=> (k = S.n))                               \* minimality test
      /\ Morphisms(S, O) # {}                                  \* the input maps onto it
      /\ NumClasses(O) = O.n                                   \* it has no proper quotient
      /\ Isomorphic(O, Quotient(S))                            \* it IS the quotient by the coarsest congruence
      /\ ("base_out" \in DOMAIN e => Isomorphic(O, e.base_out))   \* a cover and its base have isomorphic minimal images
AutsOK(e) ==
   LET S == e.in
       got == {AsFun(e.auts[k]) : k \in 1..Len(e.auts)}
   IN /\ got = Automorphisms(S)                                \* exactly the set of automorphisms
      /\ Len(e.auts) = Cardinality(got)                        \* listed once each
MorphOK(e) ==
   LET S == e.src  T == e.dst
       W == PathWords(S)
   IN \A x \in 1..T.n :
         LET cand == MorphismCandidate(S, T, W, x)
             res == e.res[x]                                   \* <<>> for None, else the map
         IN IF IsMorphism(S, T, cand) THEN res # <<>> /\ AsFun(res) = cand
            ELSE res = <<>>
\* fold(p0, d, e) of the library is the fold of the machine Fold.tla: same verdict, same partition
FoldOK(e) ==
   LET S == e.sym
       p0 == [c \in Chambers(S) |-> e.p0[c]]
       r == FoldOf(S, p0, e.d, e.e)
   IN /\ e.ok = r.ok
      /\ (e.ok => [c \in Chambers(S) |-> e.cls[c]] = r.cls)
Next == /\ l <= Len(Rec)
        /\ (LET e == Rec[l] IN
             /\ "panic" \notin DOMAIN e
             /\ CASE e.ev = "minimal" -> MinimalOK(e)
                  [] e.ev = "auts" -> AutsOK(e)
                  [] e.ev = "morph" -> MorphOK(e)
                  [] e.ev = "fold" -> FoldOK(e)
                  [] OTHER -> FALSE) = TRUE
        /\ l' = l + 1
Spec == Init /\ [][Next]_l
Accepted == LET d == TLCGet("stats").diameter IN
   IF d - 1 = Len(Rec) THEN PrintT(<<"TRACE", "accepted", d - 1>>)
   ELSE PrintT(<<"TRACE", "rejected", d>>)
=============================================================================

---------------------------- MODULE Trace_C19 ----------------------------
(* impl -> spec for C19: every recorded call of the four cut routines returned a set that
   separates, is minimum, has no repeats / forbidden members, and whose "inside" is the set
   of vertices still reachable from the source. *)
EXTENDS Graphs2, Json, IOUtils
Rec == ndJsonDeserialize(IOEnv.TRACE)
VARIABLE l
Init == l = 1
SeqToSet(q) == {q[k] : k \in 1..Len(q)}
MinE(E, s, t) == IF Cardinality(E) <= 7 THEN MinEdgeCutBySubsets(E, s, t) ELSE MaxFlowValue(E, s, t)
MinV(E, V, s, t) == IF Cardinality(V) <= 8 THEN MinVertexCutBySubsets(E, V, s, t) ELSE MaxVertexDisjoint(E, V, s, t)
CheckOK(e) ==
  LET E0 == {<<p[1], p[2]>> : p \in SeqToSet(e.edges)}
      E == IF e.undirected THEN Sym(E0) ELSE E0
      V == Vertices(E) \cup {e.s, e.t}
      inside == SeqToSet(e.inside) \cup {e.s}
  IN IF e.kind = "edge" THEN
        LET C == {<<p[1], p[2]>> : p \in SeqToSet(e.cut)} IN
        /\ Len(e.cut) = Cardinality(C)                  \* no repeated element
        /\ C \subseteq E
        /\ SeparatesE(E, C, e.s, e.t)
        /\ Cardinality(C) = MinE(E, e.s, e.t)
        /\ inside = Reach(E \ C, e.s)
     ELSE
        LET X == SeqToSet(e.cut) IN
        /\ Len(e.cut) = Cardinality(X)
        /\ X \subseteq V \ {e.s, e.t}                    \* neither source nor sink
        /\ SeparatesV(E, X, e.s, e.t)
        /\ Cardinality(X) = MinV(E, V, e.s, e.t)
        /\ inside = Reach(RemoveV(E, X), e.s)
Next == /\ l <= Len(Rec)
        /\ ("panic" \notin DOMAIN Rec[l] /\ CheckOK(Rec[l])) = TRUE
        /\ l' = l + 1
Spec == Init /\ [][Next]_l
Accepted == LET d == TLCGet("stats").diameter IN
   IF d - 1 = Len(Rec) THEN PrintT(<<"TRACE", "accepted", d - 1>>)
   ELSE PrintT(<<"TRACE", "rejected", d>>)
=============================================================================

---------------------------- MODULE Trace_C06 ----------------------------
(* impl -> spec for C06: the complete output of the D-set generator for one (dimension, bound)
   is one history: a header, one `dset_emit` per generated D-set, and `dset_end`.  The state
   keeps the canonical forms (the specification's own, DSym!CanonSet) of what has been
   emitted; the End action compares them with the universe, which is a TLA+ set: all tuples
   of involutions on n chambers with commuting non-adjacent operations that are connected. *)
EXTENDS SetClasses, Json, IOUtils
Rec == ndJsonDeserialize(IOEnv.TRACE)
VARIABLES l, dim, max, seen, count, full
vars == <<l, dim, max, seen, count, full>>
Init == l = 1 /\ dim = 0 /\ max = 0 /\ seen = {} /\ count = 0 /\ full = TRUE
\* the universe: SetClasses!ClassesReduced (equal to the classes of ALL tuples of involutions: MC_SetClasses)
Classes(n, dm) == ClassesReduced(n, dm)
\* full = FALSE: a history beyond the bound of the universe; only the completeness half (End) is dropped
Header(e) == dim' = e.dim /\ max' = e.max /\ seen' = {} /\ count' = 0 /\ full' = e.full
EmitOK(e) == LET S == e.set IN
   /\ S.dim = dim /\ S.n <= max
   /\ IsDSet(S) /\ Complete(S) /\ Connected(S) /\ Commuting(S)
   /\ e.count = count + 1                                  \* numbered consecutively from 1
   /\ CanonSet(S) \notin seen                              \* not isomorphic to an earlier one
Emit(e) == /\ EmitOK(e) = TRUE
           /\ seen' = seen \cup {CanonSet(e.set)} /\ count' = count + 1 /\ UNCHANGED <<dim, max, full>>
\* far beyond the universe: every output judged on its own
Valid(e) == /\ (LET S == e.set IN S.dim = e.dim /\ S.n <= e.max /\ IsDSet(S) /\ Complete(S) /\ Connected(S) /\ Commuting(S)) = TRUE
            /\ UNCHANGED <<dim, max, seen, count, full>>
End(e) == /\ (full => \A n \in 1..max : {c \in seen : c.n = n} = Classes(n, dim)) = TRUE      \* every class is represented
          /\ UNCHANGED <<dim, max, seen, count, full>>
Next == /\ l <= Len(Rec)
        /\ ("panic" \notin DOMAIN Rec[l]) = TRUE
        /\ CASE Rec[l].ev = "dset_header" -> Header(Rec[l])
             [] Rec[l].ev = "dset_emit" -> Emit(Rec[l])
             [] Rec[l].ev = "dset_end" -> End(Rec[l])
             [] Rec[l].ev = "dset_valid" -> Valid(Rec[l])
             [] OTHER -> FALSE
        /\ l' = l + 1
Spec == Init /\ [][Next]_vars
Accepted == LET d == TLCGet("stats").diameter IN
   IF d - 1 = Len(Rec) THEN PrintT(<<"TRACE", "accepted", d - 1>>)
   ELSE PrintT(<<"TRACE", "rejected", d>>)
=============================================================================

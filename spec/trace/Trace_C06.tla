---------------------------- MODULE Trace_C06 ----------------------------
(* impl -> spec for C06: the complete output of the D-set generator for one (dimension, bound)
   is one history: a header, one `dset_emit` per generated D-set, and `dset_end`.  The state
   keeps the canonical forms (the specification's own, DSym!CanonSet) of what has been
   emitted; the End action compares them with the universe, which is a TLA+ set: all tuples
   of involutions on n chambers with commuting non-adjacent operations that are connected. *)
EXTENDS DSym, Json, IOUtils
Rec == ndJsonDeserialize(IOEnv.TRACE)
VARIABLES l, dim, max, seen, count
vars == <<l, dim, max, seen, count>>
Init == l = 1 /\ dim = 0 /\ max = 0 /\ seen = {} /\ count = 0
Inv(n) == {f \in [1..n -> 1..n] : \A d \in 1..n : f[f[d]] = d}
Commute(f, g, n) == \A d \in 1..n : f[g[d]] = g[f[d]]
\* the classes are accumulated family by family (one family per choice of the commuting operations), so that
\* no set with millions of tuples is ever built
Mk(n, dm, t) == [n |-> n, dim |-> dm, op |-> t]
ClassesOfFamily(n, dm, tuples) == {CanonSet(T) : T \in {U \in {Mk(n, dm, t) : t \in tuples} : Connected(U)}}
TuplesAll(n, dm) == LET I == Inv(n)  P == {q \in I \X I : Commute(q[1], q[2], n)} IN
   IF dm = 1 THEN {<<a, b>> : a \in I, b \in I}
   ELSE IF dm = 2 THEN {<<p[1], b, p[2]>> : p \in P, b \in I}
   ELSE {<<z[1][1], z[2][1], z[1][2], z[2][2]>> : z \in {w \in P \X P : Commute(w[1][1], w[2][2], n)}}
Classes(n, dm) == LET I == Inv(n)  P == {q \in I \X I : Commute(q[1], q[2], n)}  k == Cardinality(I) IN
   \* one set when it stays well below TLC's bound on constructed sets (faster), family by family otherwise
   IF (dm = 1 /\ k * k < 800000) \/ (dm = 2 /\ k * k * k < 800000) \/ (dm = 3 /\ k * k * k * k < 800000)
   THEN ClassesOfFamily(n, dm, TuplesAll(n, dm))
   ELSE IF dm = 1 THEN UNION {ClassesOfFamily(n, dm, {<<a, b>> : b \in I}) : a \in I}
   ELSE IF dm = 2 THEN UNION {ClassesOfFamily(n, dm, {<<p[1], b, p[2]>> : b \in I}) : p \in P}
   ELSE UNION {ClassesOfFamily(n, dm, {<<p[1], q[1], p[2], q[2]>> : q \in {w \in P : Commute(p[1], w[2], n)}}) : p \in P}
Header(e) == dim' = e.dim /\ max' = e.max /\ seen' = {} /\ count' = 0
EmitOK(e) == LET S == e.set IN
   /\ S.dim = dim /\ S.n <= max
   /\ IsDSet(S) /\ Complete(S) /\ Connected(S) /\ Commuting(S)
   /\ e.count = count + 1                                  \* numbered consecutively from 1
   /\ CanonSet(S) \notin seen                              \* not isomorphic to an earlier one
Emit(e) == /\ EmitOK(e) = TRUE
           /\ seen' = seen \cup {CanonSet(e.set)} /\ count' = count + 1 /\ UNCHANGED <<dim, max>>
End(e) == /\ (\A n \in 1..max : {c \in seen : c.n = n} = Classes(n, dim)) = TRUE      \* every class is represented
          /\ UNCHANGED <<dim, max, seen, count>>
Next == /\ l <= Len(Rec)
        /\ ("panic" \notin DOMAIN Rec[l]) = TRUE
        /\ CASE Rec[l].ev = "dset_header" -> Header(Rec[l])
             [] Rec[l].ev = "dset_emit" -> Emit(Rec[l])
             [] Rec[l].ev = "dset_end" -> End(Rec[l])
             [] OTHER -> FALSE
        /\ l' = l + 1
Spec == Init /\ [][Next]_vars
Accepted == LET d == TLCGet("stats").diameter IN
   IF d - 1 = Len(Rec) THEN PrintT(<<"TRACE", "accepted", d - 1>>)
   ELSE PrintT(<<"TRACE", "rejected", d>>)
=============================================================================

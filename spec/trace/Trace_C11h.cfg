SPECIFICATION Spec
INVARIANTS Sound InverseConsistent
POSTCONDITION Accepted
CHECK_DEADLOCK FALSE

---------------------------- MODULE Trace_C07 ----------------------------
(* impl -> spec for C07: one event per connected complete 2-D D-set with the full output of
   the D-symbol generator for each of the four geometry settings (per-chamber branching
   numbers and the running symbol counter). *)
EXTENDS GenSym, Json, IOUtils
Rec == ndJsonDeserialize(IOEnv.TRACE)
VARIABLE l
Init == l = 1
AOf(S0, vv) == TLCEval([o \in AdjOrbits(S0) |-> vv[o[1]+1][Least(o[2])]])
CheckOK(e) ==
  LET S0 == [n |-> e.n, dim |-> 2, op |-> e.op]
      T == GenSets(S0)
      got(list) == {ClassOf(S0, T.auts, AOf(S0, list[k].v)) : k \in 1..Len(list)}
      \* a complete symbol on exactly this D-set: branching constant on orbits, every degree >= 3
      wellformed(list) == \A k \in 1..Len(list) :
           /\ list[k].op = e.op
           /\ \A o \in AdjOrbits(S0) : /\ \A d \in o[2] : list[k].v[o[1]+1][d] = list[k].v[o[1]+1][Least(o[2])]
                                       /\ RLenO(S0, o) * list[k].v[o[1]+1][Least(o[2])] >= 3
           /\ list[k].count = k                                                   \* numbered consecutively
      signs(list, s) == \A k \in 1..Len(list) : Sign(Orbifold(WithV(S0, AOf(S0, list[k].v))).curv) \in s
  IN /\ IsDSet(S0) /\ Complete(S0) /\ Connected(S0)
     /\ wellformed(e.euc) /\ wellformed(e.hyp) /\ wellformed(e.sph) /\ wellformed(e.all)
     /\ signs(e.euc, {0}) /\ signs(e.hyp, {-1}) /\ signs(e.sph, {1})        \* curvature of the requested sign (definitional curvature)
     /\ got(e.euc) = T.euc /\ Cardinality(got(e.euc)) = Len(e.euc)           \* sound, complete, irredundant
     /\ got(e.hyp) = T.hyp /\ Cardinality(got(e.hyp)) = Len(e.hyp)
     /\ got(e.sph) = T.sph /\ Cardinality(got(e.sph)) = Len(e.sph)
     /\ got(e.all) = T.euc \cup T.hyp \cup T.sph                             \* 'all' = disjoint union of the three
     /\ Len(e.all) = Len(e.euc) + Len(e.hyp) + Len(e.sph)
     /\ T.maxv <= 7                                                           \* the box is not exhausted
\* the event is bound by a quantifier so that it (and every LET inside CheckOK) is a value that TLC
\* evaluates once, not an expression over the state variable l that is re-evaluated at every use
Next == /\ l <= Len(Rec)
        /\ \E e \in {Rec[l]} : ("panic" \notin DOMAIN e /\ CheckOK(e)) = TRUE
        /\ l' = l + 1
Spec == Init /\ [][Next]_l
Accepted == LET d == TLCGet("stats").diameter IN
   IF d - 1 = Len(Rec) THEN PrintT(<<"TRACE", "accepted", d - 1>>)
   ELSE PrintT(<<"TRACE", "rejected", d>>)
=============================================================================

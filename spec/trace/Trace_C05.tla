---------------------------- MODULE Trace_C05 ----------------------------
(* impl -> spec for C05: whatever the library returns as a cover is a genuine covering — complete,
   connected, and the standard projection (sheet k holds chambers k*n+1..(k+1)*n) commutes with
   every operation, preserves every degree and has equal fibres; the special constructors have
   their additional properties; the list of covers up to k sheets has one entry per class,
   the number of classes per sheet number counted by the direct enumeration of Covers.tla. *)
EXTENDS Covers, Surface2D, Json, IOUtils
Rec == ndJsonDeserialize(IOEnv.TRACE)
VARIABLE l
Init == l = 1
CoverOK(C, S) == /\ CompleteSym(C) /\ Connected(C) /\ C.n % S.n = 0
                 /\ IsCoverOf(C, S)
OrientedCoverOK(e) ==
   /\ CoverOK(e.out, e.in) /\ Oriented(e.out)
   /\ e.out.n = (IF Oriented(e.in) THEN 1 ELSE 2) * e.in.n
\* isomorphic over the base: an isomorphism that commutes with the projections
IsoOverBase(C, D, S) == C.n = D.n /\ \E f \in Morphisms(C, D) : \A d \in Chambers(C) : StdProj(D, S)[f[d]] = StdProj(C, S)[d]
CoversOK(e) ==
   LET S == e.in  Cs == e.outs IN
   /\ \A i \in 1..Len(Cs) : CoverOK(Cs[i], S) /\ Cs[i].n <= e.k * S.n
   /\ \A i, j \in 1..Len(Cs) : i < j => ~IsoOverBase(Cs[i], Cs[j], S)
   /\ \A j \in 1..e.kcheck : Cardinality({i \in 1..Len(Cs) : Cs[i].n = j * S.n}) = NumCoverClasses(S, j)
SubgroupCoverOK(e) == CoverOK(e.out, e.in)
UniversalOK(e) ==
   LET S == e.in  C == e.out IN
   /\ CoverOK(C, S)
   /\ e.fg_ngens = 0                                     \* the library's own fundamental group of it is trivial
   /\ (S.dim = 2 =>                                       \* independently of any group code: an oriented branch-free sphere of the right size
         LET Q == Orbifold(C)  k == Orbifold(S).curv IN
         /\ Oriented(C) /\ \A i \in 0..1, d \in Chambers(C) : V(C, i, d) = 1
         /\ Q.x = 0 /\ Q.nbnd = 0
         /\ k[1] > 0 /\ C.n * k[1] = S.n * 4 * k[2])     \* |C| = |S| * 4 / K(S)
\* one entry per conjugacy class of subgroups: the number of covers with each sheet number belongs to the GROUP, so it is
\* the same for every renumbering of the base (verified with the explicit permutation) and for its dual (verified: Dual(S))
CountsOK(e) == LET S == e.in IN
   /\ CompleteSym(S) /\ Connected(S) /\ Len(e.counts) = e.k /\ e.counts[1] = 1
   /\ \A j \in 1..Len(e.variants) : LET w == e.variants[j] IN
         /\ "panic" \notin DOMAIN w
         /\ IF w.how = "dual" THEN w.sym = Dual(S) ELSE IsRenumbering(S, w.sym, w.perm)
         /\ w.counts = e.counts
Next == /\ l <= Len(Rec)
        /\ ("panic" \notin DOMAIN Rec[l] /\
            CASE Rec[l].ev = "oriented_cover" -> OrientedCoverOK(Rec[l])
              [] Rec[l].ev = "covers" -> CoversOK(Rec[l])
              [] Rec[l].ev = "subgroup_cover" -> SubgroupCoverOK(Rec[l])
              [] Rec[l].ev = "deep_cover" -> CoverOK(Rec[l].out, Rec[l].in) /\ Rec[l].out.n <= Rec[l].k * Rec[l].in.n
              [] Rec[l].ev = "universal_cover" -> UniversalOK(Rec[l])
              [] Rec[l].ev = "cover_counts" -> CountsOK(Rec[l])
              [] OTHER -> FALSE) = TRUE
        /\ l' = l + 1
Spec == Init /\ [][Next]_l
Accepted == LET d == TLCGet("stats").diameter IN
   IF d - 1 = Len(Rec) THEN PrintT(<<"TRACE", "accepted", d - 1>>)
   ELSE PrintT(<<"TRACE", "rejected", d>>)
=============================================================================

---------------------------- MODULE Trace_C09 ----------------------------
(* impl -> spec for C09: one event per connected complete D-symbol with everything
   fundamental_group returns: relators, cones, gen_to_edge, edge_to_word (facet -> word).

   Statement level: (structural) every generator sits on exactly one facet pair and the word on
   that facet is its letter (or the inverse letter); the two sides of a non-mirror facet carry
   mutually inverse words; every returned word is freely reduced; the cone list is exactly the
   set of words traced around the branched 2-orbits (up to conjugation / inversion), each with that
   orbit's branching number.  (group level) the abelian invariants of the returned presentation
   equal those of the textbook presentation (specification's Smith form on both); the number of
   conjugacy classes of subgroups of index 2 (and 3) of the returned presentation — brute-force
   homomorphisms — equals the number of 2- (3-) sheeted cover classes of the symbol — direct
   enumeration; for spherical 2-D symbols the regular table the library returns is a valid
   transitive action on exactly 4/K rows.
   Conformance level: the relator list is exactly the set of traced orbit words raised to the
   branching numbers (a sufficient witness for "same group"; a simplified but equivalent relator
   list would not be a defect). *)
EXTENDS Textbook, Action, FreeGroup, Surface2D, Json, IOUtils
Rec == ndJsonDeserialize(IOEnv.TRACE)
VARIABLE l
Init == l = 1
ExpMatrix(ngens, rels) == [r \in 1..Len(rels) |-> [g \in 1..ngens |-> ExpSum(rels[r], g)]]
\* edge_to_word as a function facet -> word (missing = empty word); e.edges is a list of [d, i, w]
WordAt(e, d, i) == LET hit == {k \in 1..Len(e.edges) : e.edges[k].d = d /\ e.edges[k].i = i} IN
                   IF hit = {} THEN <<>> ELSE e.edges[CHOOSE k \in hit : TRUE].w
\* the word traced around the (i,j)-orbit starting at chamber d with index i
RECURSIVE TraceOrbit(_,_,_,_,_,_,_)
TraceOrbit(e, S, i, j, d0, d, acc) ==
   LET d1 == Op(S, i, d)  d2 == Op(S, j, d1)
       acc2 == Mul(Mul(acc, WordAt(e, d, i)), WordAt(e, d1, j))
   IN IF d2 = d0 THEN acc2 ELSE TraceOrbit(e, S, i, j, d0, d2, acc2)
OrbitWord(e, S, i, j, d) == TraceOrbit(e, S, i, j, d, d, <<>>)
IdxPairs(S) == {p \in Idx(S) \X Idx(S) : p[1] < p[2]}
Structural(e) ==
   LET S == e.sym  ng == e.ngens IN
   /\ Len(e.gen_to_edge) = ng
   \* injective on facet pairs
   /\ \A a, b \in 1..ng : a # b => LET fa == e.gen_to_edge[a]  fb == e.gen_to_edge[b] IN
          ~(fa[2] = fb[2] /\ (fa[1] = fb[1] \/ fa[1] = Op(S, fb[2], fb[1])))
   /\ \A a \in 1..ng : LET f == e.gen_to_edge[a] IN f[1] \in Chambers(S) /\ f[2] \in Idx(S) /\ WordAt(e, f[1], f[2]) \in {<<a>>, <<-a>>}
   \* two sides mutually inverse (non-mirror facets)
   /\ \A d \in Chambers(S), i \in Idx(S) : Op(S,i,d) # d => WordAt(e, d, i) = Inv(WordAt(e, Op(S,i,d), i))
   \* all words reduced and over the generators
   /\ \A k \in 1..Len(e.edges) : Reduced(e.edges[k].w) /\ \A j \in 1..Len(e.edges[k].w) : e.edges[k].w[j] \in (1..ng) \cup {-x : x \in 1..ng}
   /\ \A k \in 1..Len(e.relators) : Reduced(e.relators[k]) /\ e.relators[k] # <<>>
   /\ \A k \in 1..Len(e.cones) : Reduced(e.cones[k].w)
   \* cones = words around the branched orbits with their branching numbers, up to rotation / inversion
   /\ LET branched == {q \in IdxPairs(S) \X Chambers(S) : VV(S, q[1][1], q[1][2], q[2]) > 1}
          \* words traced from different chambers of one orbit are conjugate (not always rotations of each other: the
          \* trace from a chamber inside a tree branch is not cyclically reduced), so classes are taken up to conjugation
          want == {<<ConjClass(OrbitWord(e, S, q[1][1], q[1][2], q[2])), VV(S, q[1][1], q[1][2], q[2])>> : q \in branched}
          got == {<<ConjClass(e.cones[k].w), e.cones[k].v>> : k \in 1..Len(e.cones)}
          \* two different orbits can carry conjugate words (then the classes coincide while the library lists both words):
          \* the list has at least one entry per class and at most one per branched orbit
          orbits == {<<q[1], Orbit(S, {q[1][1], q[1][2]}, q[2])>> : q \in branched}
      IN got = want /\ Len(e.cones) >= Cardinality(got) /\ Len(e.cones) <= Cardinality(orbits)
GroupLevel(e) ==
   LET S == e.sym  ng == e.ngens IN
   /\ AbelianInvariants(ExpMatrix(ng, e.relators), ng) = TextbookAbelianInvariants(S)
   /\ (e.check2 => NumSubgroupClasses(ng, 2, e.relators) = NumCoverClasses(S, 2))
   /\ (e.check3 => NumSubgroupClasses(ng, 3, e.relators) = NumCoverClasses(S, 3))
   /\ ("reg" \in DOMAIN e =>          \* spherical 2-D: finite of order 4/K
         LET k == Orbifold(S).curv  T == e.reg IN
         /\ k[1] > 0 /\ NRows(T) * k[1] = 4 * k[2]
         /\ (ng > 0 => T.gens = ng /\ IsPermAction(T) /\ Transitive(T) /\ SatisfiesRelators(T, e.relators)))
RelatorConf(e) ==
   LET S == e.sym
       want == {ConjClass(Pow(OrbitWord(e, S, q[1][1], q[1][2], q[2]), VV(S, q[1][1], q[1][2], q[2]))) : q \in IdxPairs(S) \X Chambers(S)} \ {{<<>>}}
       got == {ConjClass(e.relators[k]) : k \in 1..Len(e.relators)}
   IN got = want
Next == /\ l <= Len(Rec)
        /\ ("panic" \notin DOMAIN Rec[l] /\ CompleteSym(Rec[l].sym) /\ Connected(Rec[l].sym)
            /\ Structural(Rec[l]) /\ (Rec[l].big \/ GroupLevel(Rec[l]))
            /\ (IF RelatorConf(Rec[l]) THEN TRUE ELSE PrintT(<<"NOTE", "relator list differs from the traced orbit words", l>>))) = TRUE
        /\ l' = l + 1
Spec == Init /\ [][Next]_l
Accepted == LET d == TLCGet("stats").diameter IN
   IF d - 1 = Len(Rec) THEN PrintT(<<"TRACE", "accepted", d - 1>>)
   ELSE PrintT(<<"TRACE", "rejected", d>>)
=============================================================================

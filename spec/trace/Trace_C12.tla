---------------------------- MODULE Trace_C12 ----------------------------
(* impl -> spec for C12: the complete output of the low-index enumeration for one presentation
   and one index bound.  Every table is a complete transitive action with at most k rows in
   which every relator fixes every row; no two are equivalent as actions (conjugate
   subgroups); and for every index j up to e.kcheck the number of tables with j rows equals
   the number of conjugacy classes of subgroups of index j, counted independently as classes
   of transitive homomorphisms into Sym(j) under conjugation (all (j!)^n tuples enumerated);
   two renamings of the presentation (generators permuted and inverted) give the same counts for every index up to k. *)
EXTENDS Action, Json, IOUtils
Rec == ndJsonDeserialize(IOEnv.TRACE)
VARIABLE l
Init == l = 1
CheckOK(e) ==
   LET Ts == e.tables IN
   /\ \A i \in 1..Len(Ts) : /\ Ts[i].gens = e.ng /\ IsPermAction(Ts[i]) /\ NRows(Ts[i]) <= e.k
                            /\ Transitive(Ts[i]) /\ SatisfiesRelators(Ts[i], e.rels)
   \* pairwise inequivalent: the canonical forms (up to renumbering rows incl. the base row) are all different
   /\ Cardinality({CanonAct(Ts[i]) : i \in 1..Len(Ts)}) = Len(Ts)
   /\ \A j \in 1..e.kcheck : Cardinality({i \in 1..Len(Ts) : NRows(Ts[i]) = j}) = NumSubgroupClasses(e.ng, j, e.rels)
   \* the same group with renamed / inverted generators (verified: the relators are the renamed relators) has the same number
   \* of classes for EVERY index up to k, also beyond kcheck
   /\ \A v \in 1..Len(e.variants) : LET w == e.variants[v] IN
         /\ "panic" \notin DOMAIN w
         /\ w.rels = [j \in 1..Len(e.rels) |-> [x \in 1..Len(e.rels[j]) |->
                         LET y == e.rels[j][x]  g == IF y > 0 THEN y ELSE -y IN w.perm[g] * w.sign[g] * (IF y > 0 THEN 1 ELSE -1)]]
         /\ \A j \in 1..e.k : w.counts[j] = Cardinality({i \in 1..Len(Ts) : NRows(Ts[i]) = j})
Next == /\ l <= Len(Rec)
        /\ ("panic" \notin DOMAIN Rec[l] /\ CheckOK(Rec[l])) = TRUE
        /\ l' = l + 1
Spec == Init /\ [][Next]_l
Accepted == LET d == TLCGet("stats").diameter IN
   IF d - 1 = Len(Rec) THEN PrintT(<<"TRACE", "accepted", d - 1>>)
   ELSE PrintT(<<"TRACE", "rejected", d>>)
=============================================================================

---------------------------- MODULE Trace_C19h ----------------------------
(* impl -> spec for C19 with hooks: the augmentations of the real min_edge_cut (cfg
   rust_dsymbols_verif: one `augment` event with the flow after every augmentation) are steps of
   the augmenting-path machine of MaxFlow.tla.
   header  : the graph (as the routine sees it: symmetric closure for the undirected entry point),
             source, sink.
   augment : the new flow is the old one pushed along SOME simple path of the residual graph —
             the arcs that were inserted or cancelled form such a path, and every arc whose
             reverse carried flow was cancelled, not doubled (this is the machine's Push).
   finish  : no augmenting path is left; the returned cut is the set of edges leaving the
             residual-reachable set, its size is the number of augmentations, hence minimum.
   State invariants: FlowValid and NoAntiparallel of the machine. *)
EXTENDS Graphs2, Json, IOUtils
Rec == ndJsonDeserialize(IOEnv.TRACE)
VARIABLES l, E, s, t, F, k
vars == <<l, E, s, t, F, k>>
SeqToSet(q) == {<<q[j][1], q[j][2]>> : j \in 1..Len(q)}
Init == l = 1 /\ E = {} /\ s = 0 /\ t = 0 /\ F = {} /\ k = 0
\* the arcs travelled by the step F -> G: inserted forward arcs and the reverses of cancelled arcs
Travelled(G) == (G \ F) \cup {<<e[2], e[1]>> : e \in F \ G}
IsSimplePath(A) ==
   LET V == {a[1] : a \in A} \cup {a[2] : a \in A}
       out(v) == Cardinality({a \in A : a[1] = v})  in(v) == Cardinality({a \in A : a[2] = v})
   IN /\ A # {} /\ out(s) = 1 /\ in(s) = 0 /\ in(t) = 1 /\ out(t) = 0
      /\ \A v \in V \ {s, t} : in(v) = 1 /\ out(v) = 1
      /\ Reach(A, s) = V                                       \* one piece: no separate cycles
PushOK(G) == LET A == Travelled(G) IN
   /\ IsSimplePath(A)
   /\ A \subseteq Residual(E, F)
   \* exactly the machine's update: cancel where the reverse carries flow, insert otherwise
   /\ G = (F \ {<<a[2], a[1]>> : a \in {b \in A : <<b[2], b[1]>> \in F}}) \cup {a \in A : <<a[2], a[1]>> \notin F}
FinishOK(e) == LET seen == Reach(Residual(E, F), s)
                   cut == {x \in E : x[1] \in seen /\ x[2] \notin seen} IN
   /\ t \notin seen
   /\ SeqToSet(e.cut) = cut /\ Len(e.cut) = Cardinality(cut)
   /\ Cardinality(cut) = k
Next == /\ l <= Len(Rec)
        /\ ("panic" \notin DOMAIN Rec[l]) = TRUE
        /\ CASE Rec[l].ev = "header" -> E' = SeqToSet(Rec[l].edges) /\ s' = Rec[l].s /\ t' = Rec[l].t /\ F' = {} /\ k' = 0
             [] Rec[l].ev = "augment" -> PushOK(SeqToSet(Rec[l].flow)) = TRUE /\ F' = SeqToSet(Rec[l].flow) /\ k' = k + 1 /\ UNCHANGED <<E, s, t>>
             [] Rec[l].ev = "finish" -> FinishOK(Rec[l]) = TRUE /\ UNCHANGED <<E, s, t, F, k>>
             [] OTHER -> FALSE
        /\ l' = l + 1
Spec == Init /\ [][Next]_vars
FlowValid == /\ F \subseteq E
             /\ \A v \in (Vertices(E) \ {s, t}) : Cardinality({e \in F : e[1] = v}) = Cardinality({e \in F : e[2] = v})
             /\ (E # {} => FlowValue(F, s) = k)
NoAntiparallel == \A e \in F : <<e[2], e[1]>> \notin F
Accepted == LET d == TLCGet("stats").diameter IN
   IF d - 1 = Len(Rec) THEN PrintT(<<"TRACE", "accepted", d - 1>>)
   ELSE PrintT(<<"TRACE", "rejected", d>>)
=============================================================================

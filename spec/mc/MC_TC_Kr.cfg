SPECIFICATION Spec
INVARIANTS Sound InverseConsistent ReturnOK
CONSTANTS NG = 2
Rels <- KRels
Subs <- NoSubs
MaxRows = 8
TrueN = 4
TrueAct <- KReg
CHECK_DEADLOCK FALSE

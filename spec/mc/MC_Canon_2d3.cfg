SPECIFICATION Spec
CONSTANTS
  N = 2
  DIM = 3
  VMAX = 2
  Pairs = FALSE
INVARIANTS IsRelabelling Invariant Complete_ Idempotent
CHECK_DEADLOCK FALSE

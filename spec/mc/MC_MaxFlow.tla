---- MODULE MC_MaxFlow ----
EXTENDS MaxFlow
====

SPECIFICATION Spec
CONSTANTS
  N = 3
  DIM = 2
  VMAX = 3
INVARIANTS FoldTheorem LoopTheorem
CHECK_DEADLOCK FALSE

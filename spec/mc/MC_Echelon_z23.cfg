SPECIFICATION Spec
CONSTANTS
  R = 2
  C = 3
  B = 2
  P = 0
INVARIANTS Inv Results CodeRulesAllowed Terminates
CHECK_DEADLOCK FALSE

---- MODULE MC_Echelon ----
(* Echelon machine on ALL R x C matrices with entries in -B..B, for EVERY choice of pivot rows.
   P = 0: integer (unimodular) steps; P prime: the field Z/P. *)
EXTENDS Echelon
CONSTANTS R, C, B, P
VARIABLES em, est
evars == <<em, est>>
ENext(Q) == /\ ~EDone(em, est) /\ \E pr \in PivotChoices(est) : est' = EStep(Q, est, pr) /\ em' = em
Universe == [1..R -> [1..C -> (-B)..B]]
Start(M) == EInit(IF P = 0 THEN M ELSE MatMod(M, P))
Init == em \in Universe /\ est = Start(em)
Step == ENext(P)
Spec == Init /\ [][Step]_evars
Inv == EInv(P, em, est)
Results == ReadOuts(P, em, est)
\* the code's three pivot rules are instances of the machine's free choice, and the run ends after at most C steps
CodeRulesAllowed == ~EDone(em, est) => \A rule \in {"min", "max", "first"} : CodePivot(rule, est) \in PivotChoices(est)
Terminates == est.col <= C
====

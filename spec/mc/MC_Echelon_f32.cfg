SPECIFICATION Spec
CONSTANTS
  R = 3
  C = 2
  B = 2
  P = 5
INVARIANTS Inv Results CodeRulesAllowed Terminates
CHECK_DEADLOCK FALSE

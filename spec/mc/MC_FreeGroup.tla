---------------------------- MODULE MC_FreeGroup ----------------------------
(* Lemmas about the specification's own free-group calculus, checked exhaustively over all
   words up to length L over NG generators: they justify using Reduce/Mul/Inv/... as the
   oracle for C09, C10, C13 and C14.  One initial state per word; the lemmas are invariants. *)
EXTENDS FreeGroup, TLC
CONSTANTS NG, L
Letters == (1..NG) \cup {-g : g \in 1..NG}
Raw == UNION {[1..k -> Letters \cup {0}] : k \in 0..L}
Words == {Reduce(x) : x \in Raw}
VARIABLES a, b
Init == a \in Words /\ b \in Words
Next == UNCHANGED <<a, b>>
Spec == Init /\ [][Next]_<<a, b>>
\* a single cancellation anywhere commutes with Reduce (confluence)
Cancel(x, k) == SubSeq(x, 1, k-1) \o SubSeq(x, k+2, Len(x))
Confluent == \A x \in {a \o b, a \o Inv(a) \o b, b \o a \o Inv(a)} :
                \A k \in 1..(Len(x)-1) : x[k] = -x[k+1] => Reduce(Cancel(x, k)) = Reduce(x)
ReduceLaws == /\ Reduced(a) /\ Reduce(a) = a /\ Reduced(Mul(a, b)) /\ Reduced(Inv(a))
              /\ Reduce(Reduce(a \o b)) = Reduce(a \o b)
GroupLaws == /\ Mul(a, Inv(a)) = <<>> /\ Mul(Inv(a), a) = <<>> /\ Mul(a, <<>>) = a /\ Mul(<<>>, a) = a
             /\ Inv(Mul(a, b)) = Mul(Inv(b), Inv(a))
             /\ Mul(Mul(a, b), a) = Mul(a, Mul(b, a))
             /\ Pow(a, 2) = Mul(a, a) /\ Pow(a, -1) = Inv(a) /\ Mul(Pow(a, 2), Pow(a, -3)) = Inv(a)
             /\ (Comm(a, b) = <<>>) <=> (Mul(a, b) = Mul(b, a))
OrderLaws == /\ (WLess(a, b) \/ WLess(b, a) \/ a = b) /\ ~(WLess(a, b) /\ WLess(b, a)) /\ ~WLess(a, a)
             /\ Cmp(a, b) = -Cmp(b, a)
             /\ \A c \in Words : (WLess(a, b) /\ WLess(b, c)) => WLess(a, c)
RelatorLaws == /\ RelRep(a) \in RelPerms(a) /\ \A y \in RelPerms(a) : ~WLess(y, RelRep(a))
               /\ CycReduced(a) => \A y \in RelPerms(a) : RelPerms(y) = RelPerms(a) /\ RelRep(y) = RelRep(a)
               /\ \A y \in RelPerms(a) : Reduced(y)
               /\ \A g \in 1..NG : ExpSum(Mul(a, b), g) = ExpSum(a, g) + ExpSum(b, g)
=============================================================================

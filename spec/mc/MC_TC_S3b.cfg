SPECIFICATION Spec
INVARIANTS Sound InverseConsistent ReturnOK
CONSTANTS NG = 2
Rels <- S3Rels
Subs <- S3SubsB
MaxRows = 6
TrueN = 3
TrueAct <- S3ActB
CHECK_DEADLOCK FALSE

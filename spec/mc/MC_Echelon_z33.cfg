SPECIFICATION Spec
CONSTANTS
  R = 3
  C = 3
  B = 1
  P = 0
INVARIANTS Inv Results CodeRulesAllowed Terminates
CHECK_DEADLOCK FALSE

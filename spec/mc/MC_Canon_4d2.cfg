SPECIFICATION Spec
CONSTANTS
  N = 4
  DIM = 2
  VMAX = 2
  Pairs = FALSE
INVARIANTS IsRelabelling Invariant Complete_ Idempotent
CHECK_DEADLOCK FALSE

SPECIFICATION Spec
CONSTANTS
  N = 2
  DIM = 2
  VMAX = 3
  Pairs = FALSE
INVARIANTS IsRelabelling Invariant Complete_ Idempotent
CHECK_DEADLOCK FALSE

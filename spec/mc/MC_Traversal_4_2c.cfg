SPECIFICATION Spec
CONSTANTS
  N = 4
  DIM = 2
  SL = 2
  OnlyComplete = TRUE
INVARIANTS Laws Partial
CHECK_DEADLOCK FALSE

SPECIFICATION Spec
CONSTANTS N = 3  VMAX = 4
INVARIANTS Lemma
CHECK_DEADLOCK FALSE

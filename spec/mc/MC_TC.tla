---------------------------- MODULE MC_TC ----------------------------
(* Instances of the Todd-Coxeter machine: the Klein four-group and S3 with the trivial subgroup
   (regular action) and with a subgroup of order 2. *)
EXTENDS ToddCoxeter
G4 == {1, 2, -1, -2}
\* S3 = <a,b | a^2, b^2, (ab)^3>; H = <b>: action on 3 points, a = (1 2), b = (2 3), point 1 = H
S3Rels == {<<1,1>>, <<2,2>>, <<1,2,1,2,1,2>>}
S3SubsB == {<<2>>}
S3ActB == [c \in 1..3 |-> [g \in G4 |-> IF g \in {1,-1} THEN (IF c = 1 THEN 2 ELSE IF c = 2 THEN 1 ELSE 3) ELSE (IF c = 2 THEN 3 ELSE IF c = 3 THEN 2 ELSE 1)]]
\* S3 regular: elements as permutations of {1,2,3}, right multiplication
P3 == <<<<1,2,3>>,<<2,1,3>>,<<1,3,2>>,<<2,3,1>>,<<3,1,2>>,<<3,2,1>>>>
CompS(p, q) == [k \in 1..3 |-> q[p[k]]]
IdxOf(p) == CHOOSE k \in 1..6 : P3[k] = p
NoSubs == {}
S3Reg == [c \in 1..6 |-> [g \in G4 |-> IdxOf(CompS(P3[c], IF g \in {1,-1} THEN <<2,1,3>> ELSE <<1,3,2>>))]]
\* Klein four-group <a,b | a^2, b^2, (ab)^2>: elements 1=e, 2=a, 3=b, 4=ab
KRels == {<<1,1>>, <<2,2>>, <<1,2,1,2>>}
KReg == [c \in 1..4 |-> [g \in G4 |-> IF g \in {1,-1} THEN (CASE c = 1 -> 2 [] c = 2 -> 1 [] c = 3 -> 4 [] c = 4 -> 3)
                                         ELSE (CASE c = 1 -> 3 [] c = 3 -> 1 [] c = 2 -> 4 [] c = 4 -> 2)]]
\* Klein / <a>: two cosets
KSubsA == {<<1>>}
KActA == [c \in 1..2 |-> [g \in G4 |-> IF g \in {1,-1} THEN c ELSE 3 - c]]
====

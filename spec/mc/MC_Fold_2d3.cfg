SPECIFICATION Spec
CONSTANTS
  N = 2
  DIM = 3
  VMAX = 3
INVARIANTS FoldTheorem LoopTheorem
CHECK_DEADLOCK FALSE

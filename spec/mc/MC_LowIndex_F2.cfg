SPECIFICATION Spec
CONSTANTS
  K = 2
  MaxRows = 3
  RelsC <- F2Rels
  LAZY = FALSE
INVARIANTS NodeClosed LeafValid Transversal QueueIsClosure
CHECK_DEADLOCK FALSE

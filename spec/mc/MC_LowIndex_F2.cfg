SPECIFICATION Spec
CONSTANTS
  K = 2
  MaxRows = 3
  RelsC <- F2Rels
INVARIANTS NodeClosed LeafValid Transversal
CHECK_DEADLOCK FALSE

---------------------------- MODULE MC_Prism ----------------------------
(* The prism construction yields valid symbols of the domain of C15-C17, for every connected 2-D
   symbol of the universe (not only the euclidean ones): a complete D-symbol with commuting
   non-adjacent operations, degrees as designed (every orbit length divides its degree), connected,
   tiles = prisms and vertex figures of positive curvature.  One state per 2-D symbol. *)
EXTENDS Prism, TLC
CONSTANTS N, VMAX
VARIABLES S, phase
Inv(n) == {f \in [1..n -> 1..n] : \A d \in 1..n : f[f[d]] = d}
Sets == {T \in {[n |-> N, dim |-> 2, op |-> o] : o \in [1..3 -> Inv(N)]} : Commuting(T) /\ Connected(T)}
VAssignments(T) ==
   LET orbs(i) == Orbits(T, {i, i+1})
       choice == [i \in 0..1 |-> [orbs(i) -> 1..VMAX]]
   IN {[i \in 1..2 |-> [d \in 1..N |-> f[i][Orbit(T, {i-1, i}, d)]]] : f \in choice[0] \X choice[1]}
Syms == UNION {{[n |-> T.n, dim |-> 2, op |-> T.op, v |-> vs] : vs \in VAssignments(T)} : T \in Sets}
Init == S \in Syms /\ phase = 0
Next == phase = 0 /\ phase' = 1 /\ UNCHANGED S
Spec == Init /\ [][Next]_<<S, phase>>
GoodSphere(T) == Orbifold(T).curv[1] > 0
Lemma == phase = 1 =>
   LET P == Prism(S) IN
   /\ CompleteSym(P) /\ Commuting(P) /\ Connected(P) /\ P.n = 3 * S.n
   /\ \A i \in 0..2, c \in Chambers(P) : MM(P, i, i + 1, c) = PrismM(S, i, c) /\ PrismM(S, i, c) % R(P, i, i + 1, c) = 0
   /\ (M(S, 0, 1) >= 2 /\ (\A d \in Chambers(S) : M(S, 0, d) >= 2 /\ M(S, 1, d) >= 2) =>
         \A c \in Chambers(P) : GoodSphere(Sub(P, <<0,1,2>>, c)))
   /\ ((\A d \in Chambers(S) : M(S, 0, d) >= 2 /\ M(S, 1, d) >= 2) =>
         \A c \in Chambers(P) : GoodSphere(Sub(P, <<1,2,3>>, c)))
====

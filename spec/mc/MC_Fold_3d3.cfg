SPECIFICATION Spec
CONSTANTS
  N = 3
  DIM = 3
  VMAX = 2
INVARIANTS FoldTheorem LoopTheorem
CHECK_DEADLOCK FALSE

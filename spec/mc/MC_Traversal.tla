---------------------------- MODULE MC_Traversal ----------------------------
(* All partial D-sets of dimension DIM on N chambers, every set of indices, every seed list up
   to length SL: the traversal machine satisfies the laws of the statement, and what orbit(),
   orbit_reps(), is_connected() derive from it are the graph-theoretic notions. *)
EXTENDS Traversal
CONSTANTS N, DIM, SL, OnlyComplete
VARIABLES S, I, seeds, st
PInv(n) == {f \in [1..n -> 0..n] : \A d \in 1..n : f[d] # 0 => f[f[d]] = d}
Universe == {[n |-> N, dim |-> DIM, op |-> o] : o \in [1..(DIM+1) -> PInv(N)]}
SeedLists == UNION {[1..k -> 1..N] : k \in 0..SL}
Init == /\ S \in {T \in Universe : OnlyComplete => Complete(T)}
        /\ I \in SUBSET (0..DIM) /\ seeds \in SeedLists
        /\ st = TInit(I, seeds)
Next == ~st.fin /\ st' = TPop(S, I, st) /\ UNCHANGED <<S, I, seeds>>
Spec == Init /\ [][Next]_<<S, I, seeds, st>>
Laws == st.fin => /\ TraversalLaws(S, I, seeds, st.out)
                  /\ st.out = TraversalOf(S, I, seeds)
                  /\ (Len(seeds) = 1 => OrbitFrom(st.out) = Orbit(S, I, seeds[1]))
\* partial results are always sound: reported triples are edges, no edge twice
Partial == \A k \in 1..Len(st.out) : LET t == st.out[k] IN
              /\ (t[1] # NoIdx => t[3] = Img(S, t[1], t[2]))
              /\ \A k2 \in 1..Len(st.out) : (k2 # k /\ st.out[k2][1] = t[1] /\ t[1] # NoIdx) => {st.out[k2][2], st.out[k2][3]} # {t[2], t[3]}
=============================================================================

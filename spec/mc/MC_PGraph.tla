---- MODULE MC_PGraph ----
EXTENDS PGraph, TLC
CONSTANTS NV, B
Edges2 == {<<h, t, <<x, y>> >> : h \in 1..NV, t \in 1..NV, x \in (-B)..B, y \in (-B)..B}
VARIABLE e
Init == e \in Edges2
Next == UNCHANGED e
Spec == Init /\ [][Next]_e
\* the intended canonical form is a choice function on {edge, reverse}
IntendedChoice == /\ CanonIntended(e) \in {e, NegEdge(e)} /\ CanonIntended(NegEdge(e)) = CanonIntended(e)
                  /\ CanonIntended(CanonIntended(e)) = CanonIntended(e)
\* where the code deviates: exactly on loops with a mixed-sign shift (either orientation)
DeviationOnlyMixed == (CanonCode(e) # CanonIntended(e)) => (MixedLoop(e) \/ MixedLoop(NegEdge(e)))
CodeNotIdempotentThere == MixedLoop(e) => (CanonCode(e) = NegEdge(e) /\ CanonCode(CanonCode(e)) = e)
====

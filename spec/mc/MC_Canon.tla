---------------------------- MODULE MC_Canon ----------------------------
(* Lemmas about the specification's own canonical form (DSym!Canon), on which the C03/C06
   trace specs rely as class key: it is a relabelling, invariant under EVERY renumbering, and
   two symbols have the same form iff they are isomorphic (isomorphism decided independently
   by searching a degree-preserving equivariant bijection). *)
EXTENDS DSym
CONSTANTS N, DIM, VMAX
VARIABLES S, T
Inv(n) == {f \in [1..n -> 1..n] : \A d \in 1..n : f[f[d]] = d}
Sets == {X \in {[n |-> N, dim |-> DIM, op |-> o] : o \in [1..(DIM+1) -> Inv(N)]} : Commuting(X) /\ Connected(X)}
VAssignments(X) ==
   LET orbs(i) == Orbits(X, {i, i+1})
       choice == [i \in 0..(DIM-1) |-> [orbs(i) -> 1..VMAX]]
       pick == {f \in [0..(DIM-1) -> UNION {choice[i] : i \in 0..(DIM-1)}] : \A i \in 0..(DIM-1) : f[i] \in choice[i]}
   IN {[i \in 1..DIM |-> [d \in 1..N |-> f[i-1][Orbit(X, {i-1, i}, d)]]] : f \in pick}
Universe == UNION {{[n |-> X.n, dim |-> X.dim, op |-> X.op, v |-> vs] : vs \in VAssignments(X)} : X \in Sets}
Perms == {p \in [1..N -> 1..N] : {p[d] : d \in 1..N} = 1..N}
\* Pairs = TRUE: one state per ordered pair (completeness); FALSE: one state per symbol.
\* The lemmas are evaluated in the successor state (phase 1) so that TLC's workers share them.
CONSTANT Pairs
VARIABLE phase
Init == S \in Universe /\ T \in (IF Pairs THEN Universe ELSE {S}) /\ phase = 0
Next == phase = 0 /\ phase' = 1 /\ UNCHANGED <<S, T>>
Spec == Init /\ [][Next]_<<S, T, phase>>
IsRelabelling == (phase = 1 /\ ~Pairs) => \E p \in Perms : Canon(S) = Renumber(S, p)
Invariant == (phase = 1 /\ ~Pairs) => \A p \in Perms : Canon(Renumber(S, p)) = Canon(S)
Idempotent == (phase = 1 /\ ~Pairs) => Canon(Canon(S)) = Canon(S)
Complete_ == (phase = 1 /\ Pairs) => ((Canon(S) = Canon(T)) <=> Isomorphic(S, T))
=============================================================================

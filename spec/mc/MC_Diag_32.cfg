SPECIFICATION Spec
CONSTANTS
  R = 3
  C = 2
  B = 2
INVARIANTS LatticePreserved EndsDiagonal ResultCorrect OraclesAgree
CHECK_DEADLOCK FALSE

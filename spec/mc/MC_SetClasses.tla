---------------------------- MODULE MC_SetClasses ----------------------------
(* Lemma behind Trace_C06's universe: restricting the first operation to one normal form per
   conjugacy class of involutions loses no isomorphism class of D-sets.  One state per (n, dim). *)
EXTENDS SetClasses, TLC
CONSTANTS MaxN1, MaxN2, MaxN3
VARIABLES n, dm, phase
Cases == {<<k, 1>> : k \in 1..MaxN1} \cup {<<k, 2>> : k \in 1..MaxN2} \cup {<<k, 3>> : k \in 1..MaxN3}
Init == \E c \in Cases : n = c[1] /\ dm = c[2] /\ phase = 0
Next == phase = 0 /\ phase' = 1 /\ UNCHANGED <<n, dm>>
Spec == Init /\ [][Next]_<<n, dm, phase>>
\* evaluated in the successor states so that TLC's workers share the cases
Lemma == phase = 1 => /\ ClassesFull(n, dm) = ClassesReduced(n, dm)
                      /\ \A a \in NormalInvolutions(n) : a \in InvolutionsOn(n)
                      /\ InvolutionsOn(n) = InvolutionsByFilter(n)
                      /\ Cardinality(NormalInvolutions(n)) = (n \div 2) + 1
====

SPECIFICATION Spec
CONSTANTS
  K = 3
  MaxRows = 3
  RelsC <- UnitS3
  LAZY = TRUE
INVARIANTS NodeClosed LeafValid Transversal
CHECK_DEADLOCK FALSE

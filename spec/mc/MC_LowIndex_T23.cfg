SPECIFICATION Spec
CONSTANTS
  K = 2
  MaxRows = 4
  RelsC <- T23Rels
  LAZY = FALSE
INVARIANTS NodeClosed LeafValid Transversal QueueIsClosure
CHECK_DEADLOCK FALSE

SPECIFICATION Spec
CONSTANTS
  K = 2
  MaxRows = 4
  RelsC <- T23Rels
INVARIANTS NodeClosed LeafValid Transversal
CHECK_DEADLOCK FALSE

SPECIFICATION Spec
CONSTANTS
  N = 3
  DIM = 3
  SL = 2
  OnlyComplete = TRUE
INVARIANTS Laws Partial
CHECK_DEADLOCK FALSE

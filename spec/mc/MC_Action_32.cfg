SPECIFICATION Spec
CONSTANTS
  N = 3
  K = 2
INVARIANT CanonComplete
CHECK_DEADLOCK FALSE

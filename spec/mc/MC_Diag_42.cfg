SPECIFICATION Spec
CONSTANTS
  R = 4
  C = 2
  B = 1
INVARIANTS LatticePreserved EndsDiagonal ResultCorrect OraclesAgree
CHECK_DEADLOCK FALSE

SPECIFICATION Spec
CONSTANTS N = 2  VMAX = 6
INVARIANTS Lemma
CHECK_DEADLOCK FALSE

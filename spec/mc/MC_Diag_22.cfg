SPECIFICATION Spec
CONSTANTS
  R = 2
  C = 2
  B = 3
INVARIANTS LatticePreserved EndsDiagonal ResultCorrect OraclesAgree
CHECK_DEADLOCK FALSE

SPECIFICATION Spec
CONSTANTS
  K = 2
  MaxRows = 4
  RelsC <- KleinB
INVARIANTS NodeClosed LeafValid Transversal
CHECK_DEADLOCK FALSE

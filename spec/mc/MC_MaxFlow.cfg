SPECIFICATION Spec
CONSTANTS N = 3
INVARIANTS NoAntiparallel FlowValid WeakDuality CutCorrect VertexMenger
CHECK_DEADLOCK FALSE

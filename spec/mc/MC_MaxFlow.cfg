SPECIFICATION Spec
CONSTANTS N = 3
INVARIANTS FlowValid WeakDuality CutCorrect VertexMenger
CHECK_DEADLOCK FALSE

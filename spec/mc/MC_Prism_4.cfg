SPECIFICATION Spec
CONSTANTS N = 4  VMAX = 3
INVARIANTS Lemma
CHECK_DEADLOCK FALSE

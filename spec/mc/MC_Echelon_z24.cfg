SPECIFICATION Spec
CONSTANTS
  R = 2
  C = 4
  B = 1
  P = 0
INVARIANTS Inv Results CodeRulesAllowed Terminates
CHECK_DEADLOCK FALSE

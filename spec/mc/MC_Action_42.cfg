SPECIFICATION Spec
CONSTANTS
  N = 4
  K = 2
INVARIANT CanonComplete
CHECK_DEADLOCK FALSE

SPECIFICATION Spec
CONSTANTS
  N = 4
  DIM = 2
  VMAX = 2
INVARIANTS FoldTheorem LoopTheorem
CHECK_DEADLOCK FALSE

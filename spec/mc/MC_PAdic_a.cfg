SPECIFICATION Spec
CONSTANTS
  R = 2
  K = 1
  B = 2
  P = 5
INVARIANTS InverseOK Inv Result StartsShort
CHECK_DEADLOCK FALSE

SPECIFICATION Spec
CONSTANTS
  N = 3
  DIM = 2
  VMAX = 2
  Pairs = TRUE
INVARIANTS IsRelabelling Invariant Complete_ Idempotent
CHECK_DEADLOCK FALSE

SPECIFICATION Spec
CONSTANTS
  K = 2
  MaxRows = 4
  RelsC <- Z2Rels
INVARIANTS NodeClosed LeafValid Transversal
CHECK_DEADLOCK FALSE

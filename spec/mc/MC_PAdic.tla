---- MODULE MC_PAdic ----
(* the p-adic solver machine on ALL R x R systems with entries in -B..B that are non-singular modulo P, K right-hand sides *)
EXTENDS PAdic
CONSTANTS R, K, B, P
VARIABLES pa, pb, pst
pvars == <<pa, pb, pst>>
UniverseA == {A \in [1..R -> [1..R -> (-B)..B]] : NonSingularMod(A, P)}
UniverseB == [1..R -> [1..K -> (-B)..B]]
Init == pa \in UniverseA /\ pb \in UniverseB /\ pst = PInit(pa, pb)
\* run two steps beyond the bound
PNext == /\ ~EnoughSteps(pst.pk \div (P * P), pa, pb)
         /\ pst' = PStep(P, pa, InverseMod(pa, P), pst) /\ UNCHANGED <<pa, pb>>
Spec == Init /\ [][PNext]_pvars
InverseOK == MatMod(MatMulZ(InverseMod(pa, P), pa), P) = [i \in 1..R |-> [j \in 1..R |-> IF i = j THEN 1 ELSE 0]]
Inv == Lift(pa, pb, pst) /\ DigitsInRange(pst) /\ Exact(P, pa, InverseMod(pa, P), pst)
Result == EnoughSteps(pst.pk, pa, pb) => ResultOK(pa, pb, pst)
\* vacuity: the bound is not met at once
StartsShort == pst.k = 0 => (~EnoughSteps(pst.pk, pa, pb) \/ DeltaSq(pa, pb) = 0)
====

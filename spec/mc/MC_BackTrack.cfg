SPECIFICATION Spec
CONSTANTS N = 5
INVARIANTS PrefixInv Final
CHECK_DEADLOCK FALSE

---- MODULE MC_Diag ----
EXTENDS Diagonalize
CONSTANTS R, C, B
Universe == [1..R -> [1..C -> (-B)..B]]
Init == DInit(Universe)
Spec == Init /\ [][DNext]_dvars
\* lemma tying the two oracles together on the same universe
OraclesAgree == SNF(mat0) = InvariantFactors(mat0)
====

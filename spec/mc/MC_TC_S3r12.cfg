SPECIFICATION Spec
INVARIANTS Sound InverseConsistent ReturnOK
CONSTANTS NG = 2
Rels <- S3Rels
Subs <- NoSubs
MaxRows = 12
TrueN = 6
TrueAct <- S3Reg
CHECK_DEADLOCK FALSE

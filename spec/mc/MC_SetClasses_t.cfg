SPECIFICATION Spec
CONSTANTS MaxN1 = 7  MaxN2 = 6  MaxN3 = 5
INVARIANTS Lemma
CHECK_DEADLOCK FALSE

---------------------------- MODULE MC_BackTrack ----------------------------
EXTENDS BackTrack
CONSTANT N
VARIABLES T, s
\* all trees on 1..n: every node > 1 chooses a parent with a smaller number; children ordered by number
Parents(n) == [2..n -> 1..n]
TreeOf(n, p, ex) == [n |-> n, kids |-> [v \in 1..n |-> SetToSortSeq({c \in 2..n : p[c] = v}, <)], ex |-> ex]
Trees == UNION {{TreeOf(n, p, ex) : p \in {q \in Parents(n) : \A c \in 2..n : q[c] < c}, ex \in [1..n -> BOOLEAN]} : n \in 1..N}
Init == T \in Trees /\ s = BInit
Next == Len(s.stack) > 0 /\ s' = BTurn(T, s) /\ UNCHANGED T
Spec == Init /\ [][Next]_<<T, s>>
\* at every moment: the nodes visited so far are a prefix of the pre-order, emitted ones the extractable among them
PrefixInv == /\ s.visited = SubSeq(PreOrder(T, 1), 1, Len(s.visited))
             /\ s.out = SelectSeq(s.visited, LAMBDA v : T.ex[v])
Final == Len(s.stack) = 0 => s.visited = PreOrder(T, 1) /\ s.out = Emitted(T) /\ BRun(T, BInit).out = s.out
====

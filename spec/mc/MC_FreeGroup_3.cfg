SPECIFICATION Spec
CONSTANTS
  NG = 3
  L = 2
INVARIANTS Confluent ReduceLaws GroupLaws OrderLaws RelatorLaws
CHECK_DEADLOCK FALSE

SPECIFICATION Spec
CONSTANTS
  R = 2
  K = 1
  B = 3
  P = 11
INVARIANTS InverseOK Inv Result StartsShort
CHECK_DEADLOCK FALSE

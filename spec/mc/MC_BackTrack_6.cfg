SPECIFICATION Spec
CONSTANTS N = 6
INVARIANTS PrefixInv Final
CHECK_DEADLOCK FALSE

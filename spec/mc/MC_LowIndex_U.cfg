SPECIFICATION Spec
CONSTANTS
  K = 2
  MaxRows = 4
  RelsC <- UnitZ4
  LAZY = TRUE
INVARIANTS NodeClosed LeafValid Transversal
CHECK_DEADLOCK FALSE

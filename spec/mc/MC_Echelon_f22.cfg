SPECIFICATION Spec
CONSTANTS
  R = 2
  C = 2
  B = 3
  P = 7
INVARIANTS Inv Results CodeRulesAllowed Terminates
CHECK_DEADLOCK FALSE

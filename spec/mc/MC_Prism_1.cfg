SPECIFICATION Spec
CONSTANTS N = 1  VMAX = 8
INVARIANTS Lemma
CHECK_DEADLOCK FALSE

SPECIFICATION Spec
CONSTANTS
  N = 5
  DIM = 2
  VMAX = 1
  Pairs = FALSE
INVARIANTS IsRelabelling Invariant Complete_ Idempotent
CHECK_DEADLOCK FALSE

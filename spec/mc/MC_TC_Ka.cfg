SPECIFICATION Spec
INVARIANTS Sound InverseConsistent ReturnOK
CONSTANTS NG = 2
Rels <- KRels
Subs <- KSubsA
MaxRows = 6
TrueN = 2
TrueAct <- KActA
CHECK_DEADLOCK FALSE

SPECIFICATION Spec
CONSTANTS
  N = 6
  DIM = 2
  VMAX = 1
INVARIANTS FoldTheorem LoopTheorem
CHECK_DEADLOCK FALSE

SPECIFICATION Spec
CONSTANTS
  NG = 2
  L = 3
INVARIANTS Confluent ReduceLaws GroupLaws OrderLaws RelatorLaws
CHECK_DEADLOCK FALSE

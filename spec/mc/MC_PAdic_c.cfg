SPECIFICATION Spec
CONSTANTS
  R = 2
  K = 2
  B = 1
  P = 5
INVARIANTS InverseOK Inv Result StartsShort
CHECK_DEADLOCK FALSE

SPECIFICATION Spec
CONSTANTS
  N = 3
  DIM = 3
  VMAX = 1
  Pairs = TRUE
INVARIANTS IsRelabelling Invariant Complete_ Idempotent
CHECK_DEADLOCK FALSE

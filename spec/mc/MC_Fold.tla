---------------------------- MODULE MC_Fold ----------------------------
EXTENDS Fold
CONSTANTS N, DIM, VMAX
VARIABLES S, d, phase
Inv(n) == {f \in [1..n -> 1..n] : \A x \in 1..n : f[f[x]] = x}
Sets == {X \in {[n |-> N, dim |-> DIM, op |-> o] : o \in [1..(DIM+1) -> Inv(N)]} : Commuting(X) /\ Connected(X)}
VAssignments(X) ==
   LET orbs(i) == Orbits(X, {i, i+1})
       choice == [i \in 0..(DIM-1) |-> [orbs(i) -> 1..VMAX]]
       pick == {f \in [0..(DIM-1) -> UNION {choice[i] : i \in 0..(DIM-1)}] : \A i \in 0..(DIM-1) : f[i] \in choice[i]}
   IN {[i \in 1..DIM |-> [x \in 1..N |-> f[i-1][Orbit(X, {i-1, i}, x)]]] : f \in pick}
Universe == UNION {{[n |-> X.n, dim |-> X.dim, op |-> X.op, v |-> vs] : vs \in VAssignments(X)} : X \in Sets}
Init == S \in Universe /\ d \in 1..N /\ phase = 0
Next == phase = 0 /\ phase' = 1 /\ UNCHANGED <<S, d>>
Spec == Init /\ [][Next]_<<S, d, phase>>
\* single folds from the trivial partition and from the partition reached by the loop so far
FoldTheorem == phase = 1 => \A p0 \in {TrivialCls(S), MinLoop(S, TrivialCls(S), N + 2 - d)} :
   LET r == FoldOf(S, p0, 1, d)  want == LeastCongruence(S, p0, 1, d) IN
   /\ (r.ok => r.cls = want /\ RespectsDegrees(S, want))
   /\ (RespectsDegrees(S, p0) => (r.ok <=> RespectsDegrees(S, want)))
LoopTheorem == (phase = 1 /\ d = 1) => /\ MinimalPartition(S) = Coarsest(S)
                                       /\ IsMinimalByFolds(S) <=> (NumClasses(S) = S.n)
====

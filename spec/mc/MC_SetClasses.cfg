SPECIFICATION Spec
CONSTANTS MaxN1 = 6  MaxN2 = 5  MaxN3 = 4
INVARIANTS Lemma
CHECK_DEADLOCK FALSE

SPECIFICATION Spec
CONSTANTS N = 4
INVARIANTS NoAntiparallel FlowValid WeakDuality CutCorrect VertexMenger
CHECK_DEADLOCK FALSE

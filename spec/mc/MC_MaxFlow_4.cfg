SPECIFICATION Spec
CONSTANTS N = 4
INVARIANTS FlowValid WeakDuality CutCorrect VertexMenger
CHECK_DEADLOCK FALSE

SPECIFICATION Spec
CONSTANTS
  R = 3
  C = 3
  B = 1
INVARIANTS LatticePreserved EndsDiagonal ResultCorrect OraclesAgree
CHECK_DEADLOCK FALSE

SPECIFICATION Spec
CONSTANTS
  E = 5
  NI = 2
  Queries <- MCQueries
INVARIANTS Refines RepInClass RankBound AbsIsPartition
PROPERTIES RepStable CloneIndependent
CHECK_DEADLOCK FALSE

---------------------------- MODULE MC_LowIndex ----------------------------
(* The backtracking tree of LowIndex.tla explored by TLC for small presentations: the state is a
   node; Next moves to any derivable child.  Invariants: every node is a closed table; every
   leaf (complete table) is a transitive action satisfying the relators with at most MaxRows
   rows; and the leaves contain a representative of every conjugacy class of subgroups of index
   <= MaxRows (count of distinct canonical forms of leaves = sum of the class numbers obtained by
   brute-force homomorphisms) — so pruning by canonicity, which keeps one table per class, can
   still reach every class. *)
EXTENDS LowIndex
CONSTANTS K, MaxRows, RelsC, LAZY
X == ExpandedRels(RelsC)
VARIABLE node
Init == node = Root(K)
Kids(T) == IF LAZY THEN ChildrenQ(T, X, MaxRows) ELSE ChildrenAll(T, X, MaxRows)
Next == \E c \in Kids(node) : node' = c
Spec == Init /\ [][Next]_node
NodeClosed == LAZY \/ ClosedTable(node, X)
\* the code's queue computes the closure (for every candidate edge of every node) unless a relator has length one
QueueIsClosure == HasUnitRelator(X) \/
   LET ff == FirstFree(node) IN ff[1] = -1 \/
   \A pos \in ff[1]..NRows(node) :
      LET T1 == IF pos = NRows(node) THEN AddRow(node) ELSE node IN DeriveQ(T1, X, ff[1], pos, ff[2]) = Derive(T1, X, ff[1], pos, ff[2])
LeafValid == CompleteT(node) => /\ IsPermAction(node) /\ Transitive(node) /\ SatisfiesRelators(node, RelsC) /\ NRows(node) <= MaxRows
\* all leaves below a node, as canonical forms
RECURSIVE LeafForms(_)
LeafForms(T) == IF CompleteT(T) THEN {CanonAct(T)} ELSE UNION {LeafForms(c) : c \in Kids(T)}
RECURSIVE SumClasses(_)
SumClasses(j) == IF j = 0 THEN 0 ELSE NumSubgroupClasses(K, j, RelsC) + SumClasses(j - 1)
Transversal == (node = Root(K)) => Cardinality(LeafForms(node)) = SumClasses(MaxRows)
S3Rels == <<<<1,1>>, <<2,2>>, <<1,2,1,2,1,2>>>>
Z2Rels == <<<<1,2,-1,-2>>>>
F2Rels == <<>>
T23Rels == <<<<1,1>>, <<2,2,2>>>>
KleinB == <<<<1,2,1,-2>>>>
UnitZ4 == <<<<1>>, <<2,2,2,2>>>>
UnitS3 == <<<<3>>, <<1,1>>, <<2,2>>, <<1,2,1,2,1,2>>>>
====

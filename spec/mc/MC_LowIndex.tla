---------------------------- MODULE MC_LowIndex ----------------------------
(* The backtracking tree of LowIndex.tla explored by TLC for small presentations: the state is a
   node; Next moves to any derivable child.  Invariants: every node is a closed table; every
   leaf (complete table) is a transitive action satisfying the relators with at most MaxRows
   rows; and the leaves contain a representative of every conjugacy class of subgroups of index
   <= MaxRows (count of distinct canonical forms of leaves = sum of the class numbers obtained by
   brute-force homomorphisms) — so pruning by canonicity, which keeps one table per class, can
   still reach every class. *)
EXTENDS LowIndex
CONSTANTS K, MaxRows, RelsC
X == ExpandedRels(RelsC)
VARIABLE node
Init == node = Root(K)
Next == \E c \in ChildrenAll(node, X, MaxRows) : node' = c
Spec == Init /\ [][Next]_node
NodeClosed == ClosedTable(node, X)
LeafValid == CompleteT(node) => /\ IsPermAction(node) /\ Transitive(node) /\ SatisfiesRelators(node, RelsC) /\ NRows(node) <= MaxRows
\* all leaves below a node, as canonical forms
RECURSIVE LeafForms(_)
LeafForms(T) == IF CompleteT(T) THEN {CanonAct(T)} ELSE UNION {LeafForms(c) : c \in ChildrenAll(T, X, MaxRows)}
RECURSIVE SumClasses(_)
SumClasses(j) == IF j = 0 THEN 0 ELSE NumSubgroupClasses(K, j, RelsC) + SumClasses(j - 1)
Transversal == (node = Root(K)) => Cardinality(LeafForms(node)) = SumClasses(MaxRows)
S3Rels == <<<<1,1>>, <<2,2>>, <<1,2,1,2,1,2>>>>
Z2Rels == <<<<1,2,-1,-2>>>>
F2Rels == <<>>
T23Rels == <<<<1,1>>, <<2,2,2>>>>
KleinB == <<<<1,2,1,-2>>>>
====

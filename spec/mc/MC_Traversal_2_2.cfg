SPECIFICATION Spec
CONSTANTS
  N = 2
  DIM = 2
  SL = 2
  OnlyComplete = FALSE
INVARIANTS Laws Partial
CHECK_DEADLOCK FALSE

SPECIFICATION Spec
CONSTANTS
  N = 3
  DIM = 1
  SL = 2
  OnlyComplete = FALSE
INVARIANTS Laws Partial
CHECK_DEADLOCK FALSE

---------------------------- MODULE MC_Action ----------------------------
(* Lemma used by Trace_C12: the canonical form of a transitive action is a complete invariant of
   equivalence of actions.  Universe: all transitive actions of K generators on N points. *)
EXTENDS Action
CONSTANTS N, K
VARIABLES A, B, phase
TableOf(h) == [gens |-> K, img |-> [r \in 1..N |-> [j \in 1..(2*K) |-> (IF j <= K THEN h[j][r] ELSE InvP(h[j-K])[r]) - 1]]]
Universe == {TableOf(h) : h \in TransHoms(K, N, <<>>)}
Init == A \in Universe /\ B \in Universe /\ phase = 0
Next == phase = 0 /\ phase' = 1 /\ UNCHANGED <<A, B>>
Spec == Init /\ [][Next]_<<A, B, phase>>
CanonComplete == phase = 1 => ((CanonAct(A) = CanonAct(B)) <=> EquivalentActions(A, B))
====

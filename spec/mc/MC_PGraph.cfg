SPECIFICATION Spec
CONSTANTS
  NV = 2
  B = 2
INVARIANTS IntendedChoice DeviationOnlyMixed CodeNotIdempotentThere
CHECK_DEADLOCK FALSE

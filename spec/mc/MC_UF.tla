---- MODULE MC_UF ----
EXTENDS UnionFind
MCQueries == {<<0,1,2>>, <<2,0,1,0>>}
====

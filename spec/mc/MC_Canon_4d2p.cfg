SPECIFICATION Spec
CONSTANTS
  N = 4
  DIM = 2
  VMAX = 1
  Pairs = TRUE
INVARIANTS IsRelabelling Invariant Complete_ Idempotent
CHECK_DEADLOCK FALSE

SPECIFICATION Spec
CONSTANTS
  N = 3
  DIM = 2
  SL = 3
  OnlyComplete = TRUE
INVARIANTS Laws Partial
CHECK_DEADLOCK FALSE

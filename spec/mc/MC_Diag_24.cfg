SPECIFICATION Spec
CONSTANTS
  R = 2
  C = 4
  B = 1
INVARIANTS LatticePreserved EndsDiagonal ResultCorrect OraclesAgree
CHECK_DEADLOCK FALSE

------------------------------- MODULE Textbook -------------------------------
(* The textbook presentation of the orbifold fundamental group of a D-symbol, abelianised: one
   generator per facet <<d,i>>; relations g[d,i] + g[op_i d, i] = 0 (a mirror facet gives
   2 g = 0), g = 0 on the facets of a spanning tree, and v * (sum around each (i,j)-orbit) = 0 for
   ALL index pairs i < j.  Its abelian invariants come from the specification's own Smith form. *)
EXTENDS Covers, ZModules
Col(S, d, i) == (d - 1) * (S.dim + 1) + i + 1
NCols(S) == S.n * (S.dim + 1)
Unit(S, d, i) == [c \in 1..NCols(S) |-> IF c = Col(S, d, i) THEN 1 ELSE 0]
VAdd(a, b) == [c \in DOMAIN a |-> a[c] + b[c]]
VScale(k, a) == [c \in DOMAIN a |-> k * a[c]]
RECURSIVE AroundVec(_,_,_,_,_,_)
AroundVec(S, i, j, d0, d, acc) ==
   LET d1 == Op(S,i,d)  d2 == Op(S,j,d1)
       acc2 == VAdd(VAdd(acc, Unit(S,d,i)), Unit(S,d1,j))
   IN IF d2 = d0 THEN acc2 ELSE AroundVec(S, i, j, d0, d2, acc2)
ZeroVec(S) == [c \in 1..NCols(S) |-> 0]
PairRows(S) == {VAdd(Unit(S,d,i), Unit(S,Op(S,i,d),i)) : d \in Chambers(S), i \in Idx(S)}
TreeRows(S) == {Unit(S, f[1], f[2]) : f \in TreeFacets(S)}
OrbitRows(S) == {VScale(VV(S,p[1],p[2],d), AroundVec(S,p[1],p[2],d,d,ZeroVec(S))) : p \in {q \in Idx(S) \X Idx(S) : q[1] < q[2]}, d \in Chambers(S)}
RelMatrix(S) == SetToSeq(PairRows(S) \cup TreeRows(S) \cup OrbitRows(S))
TextbookAbelianInvariants(S) == AbelianInvariants(RelMatrix(S), NCols(S))
=============================================================================

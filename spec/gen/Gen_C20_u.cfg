SPECIFICATION GSpec
CONSTANTS
  E = 6
  NI = 1
  Queries <- GQueries
VIEW View
INVARIANTS Refines RepInClass
CHECK_DEADLOCK FALSE

SPECIFICATION GSpec
CONSTANTS
  E = 3
  NI = 2
  Queries <- HQueries
CONSTRAINT Hist3
INVARIANTS Refines RepInClass
CHECK_DEADLOCK FALSE

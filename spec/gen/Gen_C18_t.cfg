SPECIFICATION Spec
CONSTANTS Tier = 1
CHECK_DEADLOCK FALSE

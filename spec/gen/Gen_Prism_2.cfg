SPECIFICATION Spec
CONSTANTS N = 2  VMAX = 6
CHECK_DEADLOCK FALSE

---------------------------- MODULE Gen_Prism ----------------------------
(* spec -> impl: every connected 2-D symbol with N chambers and branching <= VMAX that has curvature 0
   (Surface2D) and no degree 1, together with the prism symbol over it (Prism.tla): 3-D symbols that
   are euclidean by construction.  The harness feeds them and their covers to pseudo_toroidal_cover
   (C15), simplify (C16) and is_euclidean (C17). *)
EXTENDS Prism, Json, IOUtils
CONSTANTS N, VMAX
Inv(n) == {f \in [1..n -> 1..n] : \A d \in 1..n : f[f[d]] = d}
Sets == {T \in {[n |-> N, dim |-> 2, op |-> o] : o \in [1..3 -> Inv(N)]} : Commuting(T) /\ Connected(T)}
VAssignments(T) ==
   LET orbs(i) == Orbits(T, {i, i+1})
       choice == [i \in 0..1 |-> [orbs(i) -> 1..VMAX]]
   IN {[i \in 1..2 |-> [d \in 1..N |-> f[i][Orbit(T, {i-1, i}, d)]]] : f \in choice[0] \X choice[1]}
Syms == UNION {{[n |-> T.n, dim |-> 2, op |-> T.op, v |-> vs] : vs \in VAssignments(T)} : T \in Sets}
Good(S) == Euclidean2D(S) /\ \A d \in Chambers(S) : M(S, 0, d) >= 2 /\ M(S, 1, d) >= 2
Cases == {[prism_of |-> S, sym |-> Prism(S)] : S \in {T \in Syms : Good(T)}}
VARIABLE x
Init == x = ndJsonSerialize(IOEnv.OUT, SetToSeq(Cases))
Next == UNCHANGED x
Spec == Init /\ [][Next]_x
=============================================================================

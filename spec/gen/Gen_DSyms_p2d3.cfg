SPECIFICATION Spec
CONSTANTS
  N = 2
  DIM = 3
  VMAX = 1
  PartialOps = TRUE
  PartialV = FALSE
  OnlyConnected = FALSE
CHECK_DEADLOCK FALSE

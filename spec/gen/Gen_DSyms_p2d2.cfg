SPECIFICATION Spec
CONSTANTS
  N = 2
  DIM = 2
  VMAX = 2
  PartialOps = TRUE
  PartialV = FALSE
  OnlyConnected = FALSE
CHECK_DEADLOCK FALSE

SPECIFICATION Spec
CONSTANTS N = 4  VMAX = 4
CHECK_DEADLOCK FALSE

SPECIFICATION Spec
CONSTANTS
  NG = 2
  L = 3
CHECK_DEADLOCK FALSE

SPECIFICATION Spec
CONSTANTS
  N = 4
  DIM = 2
  VMAX = 1
  PartialOps = FALSE
  PartialV = FALSE
  OnlyConnected = FALSE
CHECK_DEADLOCK FALSE

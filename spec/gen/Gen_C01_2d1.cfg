SPECIFICATION Spec
CONSTANTS
  N = 2
  DIM = 1
  VMAX = 2
CHECK_DEADLOCK FALSE

SPECIFICATION Spec
CONSTANTS
  N = 1
  DIM = 2
  VMAX = 2
CHECK_DEADLOCK FALSE

---------------------------- MODULE Gen_C19 ----------------------------
(* Spec -> impl for C19: the universe of inputs is a TLA+ set — every simple digraph on 1..N
   with every ordered source/sink pair (or only s=1, t=2 when AllPairs is FALSE). *)
EXTENDS Integers, Sequences, FiniteSets, TLC, Json, IOUtils, SequencesExt
CONSTANTS N, AllPairs
V == 1..N
Pairs == {p \in V \X V : p[1] # p[2]}
ST == IF AllPairs THEN Pairs ELSE {<<1, 2>>}
Cases == {[edges |-> SetToSeq(E), s |-> st[1], t |-> st[2]] : E \in SUBSET Pairs, st \in ST}
VARIABLE x
Init == x = ndJsonSerialize(IOEnv.OUT, SetToSeq(Cases))
Next == UNCHANGED x
Spec == Init /\ [][Next]_x
=============================================================================

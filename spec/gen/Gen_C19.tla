---------------------------- MODULE Gen_C19 ----------------------------
(* Spec -> impl for C19: the universe of inputs is a TLA+ set — every simple digraph on 1..N
   with every ordered source/sink pair (or only s=1, t=2 when AllPairs is FALSE). *)
EXTENDS Integers, Sequences, FiniteSets, FiniteSetsExt, TLC, Json, IOUtils, SequencesExt
CONSTANTS N, AllPairs, Sparse   \* Sparse > 0: only graphs with at most Sparse edges or at most 3 edges missing
V == 1..N
Pairs == {p \in V \X V : p[1] # p[2]}
ST == IF AllPairs THEN Pairs ELSE {<<1, 2>>}
Graphs == IF Sparse = 0 THEN SUBSET Pairs
          ELSE UNION {kSubset(k, Pairs) : k \in 0..Sparse} \cup {Pairs \ X : X \in UNION {kSubset(k, Pairs) : k \in 0..3}}
Cases == {[edges |-> SetToSeq(E), s |-> st[1], t |-> st[2]] : E \in Graphs, st \in ST}
VARIABLE x
Init == x = ndJsonSerialize(IOEnv.OUT, SetToSeq(Cases))
Next == UNCHANGED x
Spec == Init /\ [][Next]_x
=============================================================================

SPECIFICATION Spec
CONSTANTS
  N = 3
  DIM = 1
  VMAX = 2
  PartialOps = TRUE
  PartialV = FALSE
  OnlyConnected = FALSE
CHECK_DEADLOCK FALSE

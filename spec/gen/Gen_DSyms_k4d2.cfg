SPECIFICATION Spec
CONSTANTS
  N = 4
  DIM = 2
  VMAX = 2
  PartialOps = FALSE
  PartialV = FALSE
  OnlyConnected = TRUE
CHECK_DEADLOCK FALSE

SPECIFICATION Spec
CONSTANTS
  N = 5
  DIM = 2
  VMAX = 1
  PartialOps = FALSE
  PartialV = FALSE
  OnlyConnected = TRUE
CHECK_DEADLOCK FALSE

SPECIFICATION Spec
CONSTANTS
  N = 4
  DIM = 1
  VMAX = 2
  PartialOps = FALSE
  PartialV = FALSE
  OnlyConnected = FALSE
CHECK_DEADLOCK FALSE

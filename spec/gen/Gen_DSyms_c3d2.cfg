SPECIFICATION Spec
CONSTANTS
  N = 3
  DIM = 2
  VMAX = 2
  PartialOps = FALSE
  PartialV = FALSE
  OnlyConnected = FALSE
CHECK_DEADLOCK FALSE

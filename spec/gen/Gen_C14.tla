---------------------------- MODULE Gen_C14 ----------------------------
(* Spec -> impl for C14: integer relation matrices with the abelian invariants the
   specification derives for them.  Small universes are enumerated completely (invariants by
   determinantal divisors = the definition); the structured family (non-chain diagonals such
   as diag(4,6), rank-deficient and unimodularly disguised matrices up to 5x5) uses the Smith
   reduction, which MC_Diag ties to the definition. *)
EXTENDS ZModules, Json, IOUtils
CONSTANT Tier
Small(R, C, B) == [1..R -> [1..C -> (-B)..B]]
SmallSet == IF Tier = 0
            THEN Small(1,1,4) \cup Small(1,2,3) \cup Small(2,1,3) \cup Small(2,2,2) \cup Small(1,3,2) \cup Small(3,1,2)
            ELSE Small(1,1,6) \cup Small(1,2,4) \cup Small(2,1,4) \cup Small(2,2,3) \cup Small(2,3,1) \cup Small(3,2,1) \cup Small(1,3,2) \cup Small(3,1,2)
MatMul(A, B) == [i \in 1..NR(A) |-> [j \in 1..NC(B) |-> LET RECURSIVE S(_)
                                                             S(k) == IF k = 0 THEN 0 ELSE A[i][k] * B[k][j] + S(k-1)
                                                         IN S(NC(A))]]
Transpose(A) == [c \in 1..NC(A) |-> [r \in 1..NR(A) |-> A[r][c]]]
Diag(d) == [i \in 1..Len(d) |-> [j \in 1..Len(d) |-> IF i = j THEN d[i] ELSE 0]]
\* fixed unimodular matrices (lower / upper unitriangular with small entries)
U(k) == [i \in 1..k |-> [j \in 1..k |-> IF i = j THEN 1 ELSE IF j < i THEN ((i + 2*j) % 3) - 1 ELSE 0]]
W(k) == [i \in 1..k |-> [j \in 1..k |-> IF i = j THEN 1 ELSE IF j > i THEN ((2*i + j) % 3) - 1 ELSE 0]]
DVals == {0, 1, 2, 3, 4, 6}
Diags(k) == [1..k -> DVals]
Disguised == {MatMul(MatMul(U(Len(d)), Diag(d)), W(Len(d))) : d \in Diags(2) \cup Diags(3) \cup (IF Tier = 0 THEN {} ELSE Diags(4))}
\* extra dependent rows (sum of the first two rows, twice the last row) make tall rank-deficient matrices
Tall(A) == IF NR(A) < 2 THEN A ELSE A \o << [j \in 1..NC(A) |-> A[1][j] + A[2][j]], [j \in 1..NC(A) |-> 2 * A[NR(A)][j]] >>
Big == {MatMul(MatMul(U(5), Diag(d)), W(5)) : d \in {<<1,2,3,4,6>>, <<2,2,0,4,1>>, <<6,4,3,0,0>>, <<1,1,1,1,5>>, <<4,6,4,6,4>>}}
Structured == Disguised \cup {Tall(A) : A \in Disguised} \cup {Transpose(A) : A \in {Tall(B) : B \in Disguised}} \cup Big
\* triangular and full 2x2 matrices with entries 0..7: pivots that divide their column but not their row, with a
\* non-trivial gcd (e.g. [[4,6],[0,5]] = <a,b | a^4 b^6, b^5> = Z/20) exercise the repeat condition of the diagonalisation
Tri2 == {<< <<a, b>>, <<0, c>> >> : a \in 0..7, b \in 0..7, c \in 0..7} \cup {<< <<a, 0>>, <<b, c>> >> : a \in 0..7, b \in 0..7, c \in 0..7}
Full2 == [1..2 -> [1..2 -> 0..7]]
Case(A, how) == [ngens |-> NC(A), rows |-> A, how |-> how,
                 expected |-> IF how = "minors" THEN AbelianInvariantsByMinors(A, NC(A)) ELSE AbelianInvariants(A, NC(A))]
Cases == {Case(A, "minors") : A \in SmallSet \cup (IF Tier = 0 THEN Tri2 ELSE Full2)} \cup {Case(A, "smith") : A \in Structured}
VARIABLE x
Init == x = ndJsonSerialize(IOEnv.OUT, SetToSeq(Cases))
Next == UNCHANGED x
Spec == Init /\ [][Next]_x
=============================================================================

SPECIFICATION Spec
CONSTANTS
  N = 4
  DIM = 2
  VMAX = 1
CHECK_DEADLOCK FALSE

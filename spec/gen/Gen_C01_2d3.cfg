SPECIFICATION Spec
CONSTANTS
  N = 2
  DIM = 3
  VMAX = 1
CHECK_DEADLOCK FALSE

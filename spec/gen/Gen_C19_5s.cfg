SPECIFICATION Spec
CONSTANTS
  N = 5
  AllPairs = FALSE
  Sparse = 5
CHECK_DEADLOCK FALSE

SPECIFICATION Spec
CONSTANTS
  N = 5
  AllPairs = FALSE
CHECK_DEADLOCK FALSE

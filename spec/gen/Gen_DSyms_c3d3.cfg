SPECIFICATION Spec
CONSTANTS
  N = 3
  DIM = 3
  VMAX = 1
  PartialOps = FALSE
  PartialV = FALSE
  OnlyConnected = FALSE
CHECK_DEADLOCK FALSE

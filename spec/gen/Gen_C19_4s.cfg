SPECIFICATION Spec
CONSTANTS
  N = 4
  AllPairs = FALSE
CHECK_DEADLOCK FALSE

SPECIFICATION Spec
CONSTANTS
  N = 4
  AllPairs = FALSE
  Sparse = 0
CHECK_DEADLOCK FALSE

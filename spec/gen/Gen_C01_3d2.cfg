SPECIFICATION Spec
CONSTANTS
  N = 3
  DIM = 2
  VMAX = 1
CHECK_DEADLOCK FALSE

SPECIFICATION Spec
CONSTANTS
  N = 3
  AllPairs = TRUE
CHECK_DEADLOCK FALSE

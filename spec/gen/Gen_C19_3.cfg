SPECIFICATION Spec
CONSTANTS
  N = 3
  AllPairs = TRUE
  Sparse = 0
CHECK_DEADLOCK FALSE

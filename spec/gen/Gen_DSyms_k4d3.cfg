SPECIFICATION Spec
CONSTANTS
  N = 4
  DIM = 3
  VMAX = 1
  PartialOps = FALSE
  PartialV = FALSE
  OnlyConnected = TRUE
CHECK_DEADLOCK FALSE

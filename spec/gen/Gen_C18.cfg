SPECIFICATION Spec
CONSTANTS Tier = 0
CHECK_DEADLOCK FALSE

SPECIFICATION Spec
CONSTANTS
  N = 2
  DIM = 2
  VMAX = 2
CHECK_DEADLOCK FALSE

SPECIFICATION Spec
CONSTANTS
  N = 2
  DIM = 2
  VMAX = 3
  PartialOps = FALSE
  PartialV = TRUE
  OnlyConnected = FALSE
CHECK_DEADLOCK FALSE

SPECIFICATION Spec
CONSTANTS
  N = 3
  DIM = 3
  VMAX = 2
  PartialOps = FALSE
  PartialV = FALSE
  OnlyConnected = TRUE
CHECK_DEADLOCK FALSE

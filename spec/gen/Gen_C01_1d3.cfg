SPECIFICATION Spec
CONSTANTS
  N = 1
  DIM = 3
  VMAX = 2
CHECK_DEADLOCK FALSE

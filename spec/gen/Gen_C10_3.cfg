SPECIFICATION Spec
CONSTANTS
  NG = 3
  L = 2
CHECK_DEADLOCK FALSE

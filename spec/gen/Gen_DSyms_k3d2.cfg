SPECIFICATION Spec
CONSTANTS
  N = 3
  DIM = 2
  VMAX = 3
  PartialOps = FALSE
  PartialV = FALSE
  OnlyConnected = TRUE
CHECK_DEADLOCK FALSE

SPECIFICATION GSpec
CONSTANTS
  NR = 2
  NG = 2
  MaxLen = 3
  RawSet <- GRaw
VIEW View
CONSTRAINT Bounded
INVARIANT AllReduced
CHECK_DEADLOCK FALSE

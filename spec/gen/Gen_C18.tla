---------------------------- MODULE Gen_C18 ----------------------------
(* Spec -> impl for C18: every integer matrix of the small shapes with entries -B..B, each with
   two right-hand sides: A*(1,...,1)^T (consistent by construction) and the first unit vector. *)
EXTENDS Integers, Sequences, FiniteSets, TLC, Json, IOUtils, SequencesExt
CONSTANT Tier
Mats(R, C, B) == [1..R -> [1..C -> (-B)..B]]
Universe == IF Tier = 0
            THEN Mats(1,1,3) \cup Mats(1,2,2) \cup Mats(2,1,2) \cup Mats(2,2,1) \cup Mats(1,3,1) \cup Mats(3,1,1) \cup Mats(2,3,1) \cup Mats(3,2,1)
            ELSE Mats(1,1,5) \cup Mats(1,2,3) \cup Mats(2,1,3) \cup Mats(2,2,2) \cup Mats(1,3,2) \cup Mats(3,1,2) \cup Mats(2,3,1) \cup Mats(3,2,1) \cup Mats(3,3,1) \cup Mats(1,4,1) \cup Mats(4,1,1)
RowSum(A, i) == LET RECURSIVE S(_) S(k) == IF k = 0 THEN 0 ELSE A[i][k] + S(k-1) IN S(Len(A[i]))
Case(A) == [a |-> A, b |-> [i \in 1..Len(A) |-> <<RowSum(A, i), IF i = 1 THEN 1 ELSE 0>>]]
VARIABLE x
Init == x = ndJsonSerialize(IOEnv.OUT, SetToSeq({Case(A) : A \in Universe}))
Next == UNCHANGED x
Spec == Init /\ [][Next]_x
=============================================================================

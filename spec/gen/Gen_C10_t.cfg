SPECIFICATION Spec
CONSTANTS
  NG = 2
  L = 4
CHECK_DEADLOCK FALSE

---------------------------- MODULE Gen_DSyms ----------------------------
(* The universe of small D-sets / D-symbols as a TLA+ set, written out for the harness:
   every tuple of (partial) involutions on N chambers with commuting non-adjacent operations,
   crossed with every assignment of branching numbers 1..VMAX (0..VMAX when PartialV) to the
   (i,i+1)-orbits.  Used by C01, C02, C03, C04 and others as the exhaustive small corpus. *)
EXTENDS DSym, Json, IOUtils
CONSTANTS N, DIM, VMAX, PartialOps, PartialV, OnlyConnected
PInv(n) == {f \in [1..n -> 0..n] : \A d \in 1..n : f[d] # 0 => f[f[d]] = d}
Inv(n) == {f \in [1..n -> 1..n] : \A d \in 1..n : f[f[d]] = d}
Sets == {T \in {[n |-> N, dim |-> DIM, op |-> o] : o \in [1..(DIM+1) -> IF PartialOps THEN PInv(N) ELSE Inv(N)]} :
            Commuting(T) /\ (OnlyConnected => Connected(T))}
\* branching numbers: one value per (i,i+1)-orbit, expanded per chamber
VAssignments(T) ==
   IF ~Complete(T) THEN {<<>>} ELSE
   LET orbs(i) == Orbits(T, {i, i+1})
       choice == [i \in 0..(DIM-1) |-> [orbs(i) -> (IF PartialV THEN 0 ELSE 1)..VMAX]]
       pick == {f \in [0..(DIM-1) -> UNION {choice[i] : i \in 0..(DIM-1)}] : \A i \in 0..(DIM-1) : f[i] \in choice[i]}
   IN {[i \in 1..DIM |-> [d \in 1..N |-> f[i-1][Orbit(T, {i-1, i}, d)]]] : f \in pick}
Cases == UNION {{IF vs = <<>> THEN T ELSE [n |-> T.n, dim |-> T.dim, op |-> T.op, v |-> vs] : vs \in VAssignments(T)} : T \in Sets}
VARIABLE x
Init == x = ndJsonSerialize(IOEnv.OUT, SetToSeq(Cases))
Next == UNCHANGED x
Spec == Init /\ [][Next]_x
=============================================================================

SPECIFICATION Spec
CONSTANTS N = 3  VMAX = 6
CHECK_DEADLOCK FALSE

SPECIFICATION Spec
CONSTANTS
  N = 2
  DIM = 3
  VMAX = 2
  PartialOps = FALSE
  PartialV = FALSE
  OnlyConnected = FALSE
CHECK_DEADLOCK FALSE

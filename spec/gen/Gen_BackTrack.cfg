SPECIFICATION Spec
CONSTANTS N = 6
CHECK_DEADLOCK FALSE

SPECIFICATION Spec
CONSTANTS
  N = 1
  DIM = 3
  VMAX = 2
  PartialOps = FALSE
  PartialV = TRUE
  OnlyConnected = FALSE
CHECK_DEADLOCK FALSE

SPECIFICATION Spec
CONSTANTS N = 7
CHECK_DEADLOCK FALSE

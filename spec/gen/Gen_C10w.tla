---------------------------- MODULE Gen_C10w ----------------------------
(* Spec -> impl: one replayable case per transition of the Words machine (history hidden by
   the VIEW; the expected register contents after the last operation are part of the case). *)
EXTENDS Words, Json
VARIABLE hist
View == reg
GInit == WInit /\ hist = <<>>
GNext == /\ WNext
         /\ hist' = Append(hist, last')
         /\ PrintT(ToJson([ops |-> hist', regs |-> reg']))
GSpec == GInit /\ [][GNext]_<<wvars, hist>>
GRaw == {<<1>>, <<2>>, <<-1, 2>>, <<1, 0, -1, 2, 2, -2>>, <<2, 1, -1, -2, -1>>, <<0>>}
=============================================================================

SPECIFICATION GSpec
CONSTANTS
  E = 3
  NI = 3
  Queries <- GQueries
VIEW View
INVARIANTS Refines RepInClass
CHECK_DEADLOCK FALSE

SPECIFICATION Spec
CONSTANTS
  N = 3
  DIM = 1
  VMAX = 3
  PartialOps = FALSE
  PartialV = FALSE
  OnlyConnected = FALSE
CHECK_DEADLOCK FALSE

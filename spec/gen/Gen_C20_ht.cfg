SPECIFICATION GSpec
CONSTANTS
  E = 3
  NI = 1
  Queries <- HQueries
CONSTRAINT Hist4
INVARIANTS Refines RepInClass
CHECK_DEADLOCK FALSE

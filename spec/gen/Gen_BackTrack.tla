---------------------------- MODULE Gen_BackTrack ----------------------------
(* Spec -> impl: every tree up to N nodes (all extract flags up to 5 nodes, four flag patterns
   beyond) with the sequence the iterator has to emit. *)
EXTENDS BackTrack, Json, IOUtils
CONSTANT N
Parents(n) == [2..n -> 1..n]
TreeOf(n, p, ex) == [n |-> n, kids |-> [v \in 1..n |-> SetToSortSeq({c \in 2..n : p[c] = v}, <)], ex |-> ex]
Flags(n) == IF n <= 5 THEN [1..n -> BOOLEAN]
            ELSE {[v \in 1..n |-> TRUE], [v \in 1..n |-> FALSE], [v \in 1..n |-> v % 2 = 0], [v \in 1..n |-> v > n \div 2]}
Trees == UNION {{TreeOf(n, p, ex) : p \in {q \in Parents(n) : \A c \in 2..n : q[c] < c}, ex \in Flags(n)} : n \in 1..N}
Case(T) == [n |-> T.n, kids |-> T.kids, ex |-> T.ex, out |-> BRun(T, BInit).out, visited |-> BRun(T, BInit).visited]
VARIABLE x
Init == x = ndJsonSerialize(IOEnv.OUT, SetToSeq({Case(T) : T \in Trees}))
Next == UNCHANGED x
Spec == Init /\ [][Next]_x
====

---------------------------- MODULE Gen_C01 ----------------------------
(* Spec -> impl for C01: the printed form of every D-symbol (possibly with undefined degrees)
   on N chambers in dimension DIM with branching up to VMAX, and every single-number mutation
   of it (replace by 0..N+1, delete, duplicate; size +-1; other dimension), each with the
   verdict and the symbol the format specification derives.  The format lemma
   Parse(PrintSym(S)) = S is asserted on every unmutated text. *)
EXTENDS Text, Json, IOUtils
CONSTANTS N, DIM, VMAX
Inv(n) == {f \in [1..n -> 1..n] : \A d \in 1..n : f[f[d]] = d}
Sets == {[n |-> N, dim |-> DIM, op |-> o] : o \in [1..(DIM+1) -> Inv(N)]}
VAssignments(X) ==
   LET orbs(i) == Orbits(X, {i, i+1})
       choice == [i \in 0..(DIM-1) |-> [orbs(i) -> 0..VMAX]]
       pick == {f \in [0..(DIM-1) -> UNION {choice[i] : i \in 0..(DIM-1)}] : \A i \in 0..(DIM-1) : f[i] \in choice[i]}
   IN {[i \in 1..DIM |-> [d \in 1..N |-> f[i-1][Orbit(X, {i-1, i}, d)]]] : f \in pick}
Syms == UNION {{[n |-> X.n, dim |-> X.dim, op |-> X.op, v |-> vs] : vs \in VAssignments(X)} : X \in Sets}
Base == {PrintSym(S) : S \in Syms}
MutList(list, top) == {[k \in 1..Len(list) |-> IF k = p THEN x ELSE list[k]] : p \in 1..Len(list), x \in 0..top}
                 \cup {SubSeq(list, 1, p-1) \o SubSeq(list, p+1, Len(list)) : p \in 1..Len(list)}
                 \cup {SubSeq(list, 1, p) \o SubSeq(list, p, Len(list)) : p \in 1..Len(list)}
Muts(T) == UNION {{[T EXCEPT !.ops[i] = m] : m \in MutList(T.ops[i], N + 1)} : i \in 1..Len(T.ops)}
           \cup UNION {{[T EXCEPT !.ms[i] = m] : m \in MutList(T.ms[i], 4)} : i \in 1..Len(T.ms)}
           \cup {[T EXCEPT !.size = s] : s \in {T.size - 1, T.size + 1}} \cup {[T EXCEPT !.dim = s] : s \in {1, 2, 3} \ {T.dim}}
\* the grammar has no empty lists
Writable(T) == (\A i \in 1..Len(T.ops) : T.ops[i] # <<>>) /\ (\A i \in 1..Len(T.ms) : T.ms[i] # <<>>) /\ T.size >= 0
AllTexts == {T \in Base \cup UNION {Muts(T) : T \in Base} : Writable(T)}
Case(T) == LET P == Parse(T) IN [text |-> T, ok |-> P.ok, sym |-> IF ~P.ok THEN [n |-> 0] ELSE P.val,
                                 mutated |-> T \notin Base]
FormatLemma == \A S \in Syms : LET P == Parse(PrintSym(S)) IN P.ok /\ P.val = S
VARIABLE x
Init == x = ndJsonSerialize(IOEnv.OUT, SetToSeq({Case(T) : T \in AllTexts})) /\ Assert(FormatLemma, "format round trip")
Next == UNCHANGED x
Spec == Init /\ [][Next]_x
=============================================================================

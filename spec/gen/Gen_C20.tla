---------------------------- MODULE Gen_C20 ----------------------------
(* Spec -> impl for C20: one replayable case per TRANSITION of the UnionFind machine.
   `hist` is a history variable hidden from the state space by the VIEW, so TLC visits
   every distinct concrete state once (BFS: by a shortest history) and fires every action
   from it.  Each case carries the history, the last operation and what the abstract
   partition says after it. *)
EXTENDS UnionFind, Json, Integers
VARIABLE hist
View == vars
Same(f) == [a \in 1..E |-> [b \in 1..E |-> (b-1) \in f[a-1]]]
Log(o, res) ==
   /\ hist' = Append(hist, o)
   /\ PrintT(ToJson([ops |-> hist',
                     nlive |-> Cardinality(live'),
                     same |-> [p \in Insts |-> IF p \in live' THEN Same(abs'[p]) ELSE <<>>],
                     \* elements whose class was NOT touched by the last step keep their representative
                     kept |-> [p \in Insts |-> IF p \in live THEN [a \in 1..E |-> abs'[p][a-1] = abs[p][a-1]] ELSE <<>>],
                     res |-> res]))
Op(name, p, a, b, q) == [op |-> name, p |-> p, a |-> a, b |-> b, q |-> q]
GInit == Init /\ hist = <<>>
GNext == \/ \E p \in Insts, a \in Elems : Find(p, a) /\ Log(Op("find", p, a, 0, <<>>), <<>>)
         \/ \E p \in Insts, a, b \in Elems : Unite(p, a, b) /\ Log(Op("unite", p, a, b, <<>>), <<>>)
         \/ \E p \in Insts, q \in Queries : ClassesOp(p, q) /\ Log(Op("classes", p, 0, 0, q), ClassesOf(abs[p], q))
         \/ \E p \in Insts : Clone(p) /\ Log(Op("clone", p, 0, 0, <<>>), <<>>)
GSpec == GInit /\ [][GNext]_<<vars, hist>>
GQueries == {<<0,1,2>>, <<2,0,1,0>>}
\* histories instead of transitions (cfg without VIEW): EVERY sequence of operations up to a length bound is a case, also
\* those whose steps do not change the machine's state (a find on a root, a union inside a class) - an implementation may
\* carry state the machine does not have (a cache of its last answer)
Hist3 == Len(hist) <= 3
Hist4 == Len(hist) <= 4
HQueries == {<<0,1,2>>}
=============================================================================

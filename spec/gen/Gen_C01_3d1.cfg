SPECIFICATION Spec
CONSTANTS
  N = 3
  DIM = 1
  VMAX = 2
CHECK_DEADLOCK FALSE

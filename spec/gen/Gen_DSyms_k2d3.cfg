SPECIFICATION Spec
CONSTANTS
  N = 2
  DIM = 3
  VMAX = 3
  PartialOps = FALSE
  PartialV = FALSE
  OnlyConnected = TRUE
CHECK_DEADLOCK FALSE

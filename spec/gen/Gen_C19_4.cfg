SPECIFICATION Spec
CONSTANTS
  N = 4
  AllPairs = TRUE
  Sparse = 0
CHECK_DEADLOCK FALSE

SPECIFICATION Spec
CONSTANTS
  N = 4
  AllPairs = TRUE
CHECK_DEADLOCK FALSE

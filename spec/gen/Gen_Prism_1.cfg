SPECIFICATION Spec
CONSTANTS N = 1  VMAX = 6
CHECK_DEADLOCK FALSE

---------------------------- MODULE Gen_C10 ----------------------------
(* Spec -> impl: for every reduced word (pair of words) up to length L over NG generators the
   value of every operation as the free-group calculus of FreeGroup.tla defines it.  All of
   these values are unique (the reduced form of a group element is unique), so comparing
   them letter by letter is statement level.  `cmp` is the library's particular order and
   only conformance level; the order axioms are checked on recorded comparisons by Trace_C10. *)
EXTENDS FreeGroup, TLC, Json, IOUtils
CONSTANTS NG, L
Letters == (1..NG) \cup {-g : g \in 1..NG}
Raw == UNION {[1..k -> Letters \cup {0}] : k \in 0..L}
Words == {Reduce(x) : x \in Raw}
SortedPerms(w) == SortSeq(SetToSeq(RelPerms(w)), WLess)
Unary == {[op |-> "unary", a |-> a, inv |-> Inv(a), rep |-> RelRep(a), perms |-> SortedPerms(a),
           pows |-> [m \in 1..6 |-> Pow(a, m - 3)], rots |-> [i \in 1..(L+5) |-> Rot(a, i - 4)]] : a \in Words}
Binary == {[op |-> "binary", a |-> a, b |-> b, mul |-> Mul(a, b), comm |-> Comm(a, b), cmp |-> Cmp(a, b)] : a \in Words, b \in Words}
News == {[op |-> "new", raw |-> x, w |-> Reduce(x)] : x \in Raw}
VARIABLE x
Init == x = ndJsonSerialize(IOEnv.OUT, SetToSeq(Unary \cup Binary \cup News))
Next == UNCHANGED x
Spec == Init /\ [][Next]_x
=============================================================================

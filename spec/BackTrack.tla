------------------------------- MODULE BackTrack -------------------------------
(* The generic backtracking iterator of src/util/backtrack.rs (shared by the D-set generator, the
   D-symbol generator and the low-index enumeration) as a machine over an explicit finite tree.
   A tree is [n, kids, ex]: nodes 1..n, root 1, kids[v] the sequence of children of v, ex[v]
   whether extract(v) yields an item.  The state is the stack of sibling lists, each stored in
   reverse so that the current node is the last entry of the last list.  One `Turn` = one turn of
   the loop inside next(): look at the current node, push its children (reversed) or, at a leaf,
   pop exhausted levels and advance to the next sibling; emit the node if it is extractable.
   Theorem (MC_BackTrack, all trees up to a size bound): the machine stops with an empty stack,
   every node was current exactly once, in depth-first pre-order, and the emitted sequence is
   the pre-order list of extractable nodes. *)
EXTENDS Integers, Sequences, FiniteSets, SequencesExt, TLC
BInit == [stack |-> << <<1>> >>, visited |-> <<>>, out |-> <<>>]
RECURSIVE PopExhausted(_)
PopExhausted(st) == IF Len(st) > 0 /\ Len(Last(st)) < 2 THEN PopExhausted(Front(st)) ELSE st
BTurn(T, s) ==
   LET cur == Last(Last(s.stack))
       todo == T.kids[cur]
       st1 == IF Len(todo) > 0 THEN Append(s.stack, Reverse(todo))
              ELSE LET p == PopExhausted(s.stack) IN
                   IF Len(p) > 0 THEN [p EXCEPT ![Len(p)] = Front(@)] ELSE p
   IN [stack |-> st1, visited |-> Append(s.visited, cur), out |-> IF T.ex[cur] THEN Append(s.out, cur) ELSE s.out]
RECURSIVE BRun(_,_)
BRun(T, s) == IF Len(s.stack) = 0 THEN s ELSE BRun(T, BTurn(T, s))
\* the meaning: depth-first pre-order
RECURSIVE PreOrder(_,_), PreOrderSeq(_,_)
PreOrder(T, v) == <<v>> \o PreOrderSeq(T, T.kids[v])
PreOrderSeq(T, q) == IF q = <<>> THEN <<>> ELSE PreOrder(T, Head(q)) \o PreOrderSeq(T, Tail(q))
Emitted(T) == SelectSeq(PreOrder(T, 1), LAMBDA v : T.ex[v])
=============================================================================

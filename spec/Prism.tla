------------------------------- MODULE Prism -------------------------------
(* Prisms over 2-D tilings: a source of 3-D D-symbols that are euclidean BY CONSTRUCTION.

   Let S be a 2-D D-symbol (a tiling of a surface orbifold, chambers = flags vertex < edge < face).
   The prism tiling puts a right prism over every face and stacks the layers by reflection in the
   horizontal planes.  Its flags (vertex < edge < face < tile) modulo the symmetry S x (layer
   reflections) come in three kinds per flag d of S:
       (d,1)  vertex, base edge,     base face, prism
       (d,2)  vertex, base edge,     side face, prism
       (d,3)  vertex, vertical edge, side face, prism
   with   s0: (d,1)->(s0 d,1)  (d,2)->(s0 d,2)  (d,3) fixed (mid-plane mirror)
          s1: (d,1)->(s1 d,1)  (d,2)<->(d,3)
          s2: (d,1)<->(d,2)    (d,3)->(s1 d,3)
          s3: (d,1) fixed (base mirror)  (d,2)->(s2 d,2)  (d,3)->(s2 d,3)
   and degrees  m01 = m01(d) on base faces, 4 on side faces;  m12 = 3;  m23 = 4 at base edges,
   m12(d) at vertical edges.  If S has curvature 0 (decided from orbits alone by Surface2D) its
   universal cover is the euclidean plane and the prism tiling is a tiling of euclidean 3-space:
   Prism(S) and every (verified) cover of it are known-euclidean symbols.  MC_Prism checks that the
   construction always yields a valid symbol in the domain of C15-C17. *)
EXTENDS DSym, Surface2D
PIdx(d, k) == 3 * (d - 1) + k
PBase(c) == ((c - 1) \div 3) + 1
PKind(c) == ((c - 1) % 3) + 1
PrismSet(S) ==
   LET n == 3 * S.n
       s(i, d) == S.op[i + 1][d]
   IN [n |-> n, dim |-> 3, op |-> <<
       [c \in 1..n |-> LET d == PBase(c)  k == PKind(c) IN IF k = 3 THEN c ELSE PIdx(s(0, d), k)],
       [c \in 1..n |-> LET d == PBase(c)  k == PKind(c) IN IF k = 1 THEN PIdx(s(1, d), 1) ELSE IF k = 2 THEN PIdx(d, 3) ELSE PIdx(d, 2)],
       [c \in 1..n |-> LET d == PBase(c)  k == PKind(c) IN IF k = 1 THEN PIdx(d, 2) ELSE IF k = 2 THEN PIdx(d, 1) ELSE PIdx(s(1, d), 3)],
       [c \in 1..n |-> LET d == PBase(c)  k == PKind(c) IN IF k = 1 THEN c ELSE PIdx(s(2, d), k)] >>]
PrismM(S, i, c) == LET d == PBase(c)  k == PKind(c) IN
   IF i = 0 THEN (IF k = 1 THEN M(S, 0, d) ELSE 4)
   ELSE IF i = 1 THEN 3
   ELSE (IF k = 3 THEN M(S, 1, d) ELSE 4)
Prism(S) == LET T == PrismSet(S) IN
   [n |-> T.n, dim |-> 3, op |-> T.op,
    v |-> [i \in 1..3 |-> [c \in 1..T.n |-> PrismM(S, i - 1, c) \div R(T, i - 1, i, c)]]]
Euclidean2D(S) == CompleteSym(S) /\ S.dim = 2 /\ Connected(S) /\ Orbifold(S).curv[1] = 0
=============================================================================

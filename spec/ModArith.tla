------------------------------- MODULE ModArith -------------------------------
(* Exact verification of big-number identities with TLC's 32-bit integers: a big integer is
   [s |-> sign, d |-> decimal digits]; identities are checked modulo up to 400 primes in
   (31000, 46341) — p*p + p stays below 2^31 for every such prime p — and `Enough` states how many
   primes make agreement modulo all of them EQUALITY (Chinese remainder theorem: each prime
   exceeds 10^4.49).  Also arithmetic, determinant and rank in the prime field Z/p. *)
EXTENDS Integers, Sequences, FiniteSets, TLC
\* exact verification of big-integer identities with 32-bit arithmetic: residues modulo many primes < 2^15 (CRT)
PRIMES == <<31643, 31649, 31657, 31663, 31667, 31687, 31699, 31721, 31723, 31727, 31729, 31741, 31751, 31769, 31771, 31793, 31799, 31817, 31847, 31849, 31859, 31873, 31883, 31891, 31907, 31957, 31963, 31973, 31981, 31991, 32003, 32009, 32027, 32029, 32051, 32057, 32059, 32063, 32069, 32077, 32083, 32089, 32099, 32117, 32119, 32141, 32143, 32159, 32173, 32183, 32189, 32191, 32203, 32213, 32233, 32237, 32251, 32257, 32261, 32297, 32299, 32303, 32309, 32321, 32323, 32327, 32341, 32353, 32359, 32363, 32369, 32371, 32377, 32381, 32401, 32411, 32413, 32423, 32429, 32441, 32443, 32467, 32479, 32491, 32497, 32503, 32507, 32531, 32533, 32537, 32561, 32563, 32569, 32573, 32579, 32587, 32603, 32609, 32611, 32621, 32633, 32647, 32653, 32687, 32693, 32707, 32713, 32717, 32719, 32749, 32771, 32779, 32783, 32789, 32797, 32801, 32803, 32831, 32833, 32839, 32843, 32869, 32887, 32909, 32911, 32917, 32933, 32939, 32941, 32957, 32969, 32971, 32983, 32987, 32993, 32999, 33013, 33023, 33029, 33037, 33049, 33053, 33071, 33073, 33083, 33091, 33107, 33113, 33119, 33149, 33151, 33161, 33179, 33181, 33191, 33199, 33203, 33211, 33223, 33247, 33287, 33289, 33301, 33311, 33317, 33329, 33331, 33343, 33347, 33349, 33353, 33359, 33377, 33391, 33403, 33409, 33413, 33427, 33457, 33461, 33469, 33479, 33487, 33493, 33503, 33521, 33529, 33533, 33547, 33563, 33569, 33577, 33581, 33587, 33589, 33599, 33601, 33613, 33617, 33619, 33623, 33629, 33637, 33641, 33647, 33679, 33703, 33713, 33721, 33739, 33749, 33751, 33757, 33767, 33769, 33773, 33791, 33797, 33809, 33811, 33827, 33829, 33851, 33857, 33863, 33871, 33889, 33893, 33911, 33923, 33931, 33937, 33941, 33961, 33967, 33997, 34019, 34031, 34033, 34039, 34057, 34061, 34123, 34127, 34129, 34141, 34147, 34157, 34159, 34171, 34183, 34211, 34213, 34217, 34231, 34253, 34259, 34261, 34267, 34273, 34283, 34297, 34301, 34303, 34313, 34319, 34327, 34337, 34351, 34361, 34367, 34369, 34381, 34403, 34421, 34429, 34439, 34457, 34469, 34471, 34483, 34487, 34499, 34501, 34511, 34513, 34519, 34537, 34543, 34549, 34583, 34589, 34591, 34603, 34607, 34613, 34631, 34649, 34651, 34667, 34673, 34679, 34687, 34693, 34703, 34721, 34729, 34739, 34747, 34757, 34759, 34763, 34781, 34807, 34819, 34841, 34843, 34847, 34849, 34871, 34877, 34883, 34897, 34913, 34919, 34939, 34949, 34961, 34963, 34981, 35023, 35027, 35051, 35053, 35059, 35069, 35081, 35083, 35089, 35099, 35107, 35111, 35117, 35129, 35141, 35149, 35153, 35159, 35171, 35201, 35221, 35227, 35251, 35257, 35267, 35279, 35281, 35291, 35311, 35317, 35323, 35327, 35339, 35353, 35363, 35381, 35393, 35401, 35407, 35419, 35423, 35437, 35447, 35449, 35461, 35491, 35507, 35509, 35521, 35527, 35531, 35533, 35537, 35543, 35569, 35573, 35591, 35593, 35597, 35603, 35617, 35671, 35677, 35729, 35731, 35747, 35753, 35759, 35771, 35797>>
IsPrime(p) == p > 1 /\ \A k \in 2..216 : (k * k <= p) => p % k # 0
PrimesOK == \A i \in 1..Len(PRIMES) : IsPrime(PRIMES[i]) /\ PRIMES[i] < 46341 /\ \A j \in 1..Len(PRIMES) : i # j => PRIMES[i] # PRIMES[j]
\* every prime exceeds 31000 > 10^4.49, so k primes have a product > 10^(4.49 k): enough for `digits` decimal digits when 449 * k > 100 * (digits + 1)
Enough(k, digits) == 449 * k > 100 * (digits + 1)
Mod(a, p) == ((a % p) + p) % p
RECURSIVE Horner(_,_,_)
Horner(ds, p, acc) == IF ds = <<>> THEN acc ELSE Horner(Tail(ds), p, (acc * 10 + Head(ds)) % p)
\* a big integer is [s |-> 1 or -1 or 0, d |-> <<decimal digits, most significant first>>]
Res(x, p) == Mod(x.s * Horner(x.d, p, 0), p)
RECURSIVE PowMod(_,_,_)
PowMod(a, e, p) == IF e = 0 THEN 1 ELSE LET h == PowMod(a, e \div 2, p) hh == (h * h) % p IN IF e % 2 = 0 THEN hh ELSE (hh * a) % p
InvMod(a, p) == PowMod(a, p - 2, p)
\* determinant modulo p by elimination
RECURSIVE DetMod(_,_)
DetMod(A, p) == LET n == Len(A) IN
   IF n = 0 THEN 1 ELSE
   LET rows == {i \in 1..n : A[i][1] # 0} IN
   IF rows = {} THEN 0 ELSE
   LET r == CHOOSE i \in rows : \A j \in rows : i <= j
       piv == A[r][1]
       inv == InvMod(piv, p)
       others == [k \in 1..(n-1) |-> IF k < r THEN k ELSE k + 1]
       sub == [k \in 1..(n-1) |-> LET i == others[k] f == (A[i][1] * inv) % p IN [j \in 1..(n-1) |-> Mod(A[i][j+1] - ((f * A[r][j+1]) % p), p)]]
       sign == IF r % 2 = 1 THEN 1 ELSE p - 1
   IN (((sign * piv) % p) * DetMod(sub, p)) % p
MatMod(A, p) == [i \in 1..Len(A) |-> [j \in 1..Len(A[i]) |-> Mod(A[i][j], p)]]

\* rank modulo p by elimination (matrix of residues)
RECURSIVE RankMod(_,_)
RankMod(A, p) == LET n == Len(A) IN
   IF n = 0 THEN 0 ELSE LET m == Len(A[1]) IN IF m = 0 THEN 0 ELSE
   LET rows == {i \in 1..n : A[i][1] # 0} IN
   IF rows = {} THEN RankMod([i \in 1..n |-> Tail(A[i])], p) ELSE
   LET r == CHOOSE i \in rows : \A j \in rows : i <= j
       inv == InvMod(A[r][1], p)
       others == [k \in 1..(n-1) |-> IF k < r THEN k ELSE k + 1]
       sub == [k \in 1..(n-1) |-> LET i == others[k] f == (A[i][1] * inv) % p IN [j \in 1..(m-1) |-> Mod(A[i][j+1] - ((f * A[r][j+1]) % p), p)]]
   IN 1 + RankMod(sub, p)
\* rank over Q of an integer matrix given by its residues: the maximum over the primes (a prime can
\* only lower the rank, and only if it divides every maximal non-zero minor)
MaxOver(f(_), k) == LET RECURSIVE Mx(_)
                        Mx(i) == IF i = 0 THEN 0 ELSE LET a == f(i) b == Mx(i-1) IN IF a > b THEN a ELSE b
                    IN Mx(k)
\* first k primes of the table
NPrimesFor(digits) == LET need == CHOOSE k \in 1..Len(PRIMES) : Enough(k, digits) /\ (k = 1 \/ ~Enough(k-1, digits)) IN need
=============================================================================

---------------------------- MODULE Surface2D ----------------------------
(* The 2-dimensional orbifold of a complete 2-D D-symbol, read off from orbits only (no
   tracing order is assumed anywhere): cone points = loopless 2-orbits with branching > 1,
   corners = 2-orbits containing a mirror (a chamber fixed by one of the two operations),
   boundary components = connected components of the graph whose vertices are mirrors and
   whose edges are corners, Euler characteristic of the underlying surface from the
   barycentric subdivision.  Fractions are pairs <<num, den>>, den > 0, in lowest terms. *)
EXTENDS DSym
Pairs2 == {<<0,1>>, <<0,2>>, <<1,2>>}
RECURSIVE OrbitsOf(_,_,_,_)
OrbitsOf(S, i, j, rest) == IF rest = {} THEN {} ELSE
   LET d == Least(rest)  O == Orbit(S, {i,j}, d) IN {O} \cup OrbitsOf(S, i, j, rest \ O)
RECURSIVE GCD(_,_)
GCD(a, b) == IF b = 0 THEN (IF a < 0 THEN -a ELSE a) ELSE GCD(b, a % b)
Norm(f) == LET g == GCD(f[1], f[2]) IN IF g = 0 THEN <<0,1>> ELSE <<f[1] \div g, f[2] \div g>>
FAdd(f, g) == Norm(<<f[1]*g[2] + g[1]*f[2], f[2]*g[2]>>)
FMul(f, k) == Norm(<<f[1] * k, f[2]>>)
FSum(fs) == FoldSet(LAMBDA x, acc : FAdd(x[2], acc), <<0,1>>, fs)     \* fs: set of <<tag, fraction>>
FSumSeq(q) == FoldSeq(LAMBDA x, acc : FAdd(x, acc), <<0,1>>, q)

OrbData(S) ==
  LET orbs == [p \in Pairs2 |-> OrbitsOf(S, p[1], p[2], Chambers(S))]
      items == UNION {{<<p, O>> : O \in orbs[p]} : p \in Pairs2}
      mirrors == {m \in (0..2) \X Chambers(S) : Op(S,m[1],m[2]) = m[2]}
      ends == [c \in items |-> {m \in mirrors : m[2] \in c[2] /\ m[1] \in {c[1][1], c[1][2]}}]
      corners == {c \in items : ends[c] # {}}
      order == [c \in items |-> VV(S, c[1][1], c[1][2], Least(c[2]))]
      cones == {c \in items : ends[c] = {} /\ order[c] > 1}
  IN [items |-> items, mirrors |-> mirrors, ends |-> ends, corners |-> corners, cones |-> cones, order |-> order]
RECURSIVE BComp(_,_,_)
BComp(D, frontier, seen) == IF frontier = {} THEN seen ELSE
   LET nxt == UNION {D.ends[c] : c \in {c \in D.corners : D.ends[c] \cap frontier # {}}} \ seen
   IN BComp(D, nxt, seen \cup nxt)
RECURSIVE BComps(_,_)
BComps(D, rest) == IF rest = {} THEN {} ELSE
   LET m == CHOOSE x \in rest : TRUE  B == BComp(D, {m}, {m}) IN {B} \cup BComps(D, rest \ B)
\* multiset of naturals as a function value -> multiplicity
Bag(setOfTagged) == LET vals == {t[2] : t \in setOfTagged} IN [x \in vals |-> Cardinality({t \in setOfTagged : t[2] = x})]
BagOfSeq(q) == LET vals == {q[k] : k \in 1..Len(q)} IN [x \in vals |-> Cardinality({k \in 1..Len(q) : q[k] = x})]

(* everything the property talks about, computed once per symbol *)
Orbifold(S) ==
  LET D == OrbData(S)
      chiSurf == S.n + Cardinality(D.items) - ((3 * S.n + Cardinality(D.mirrors)) \div 2)
      bnd == BComps(D, D.mirrors)
      cornersOf(B) == {c \in D.corners : D.ends[c] \cap B # {}}
      chiOrb == FAdd(FAdd(<<chiSurf, 1>>, FSum({<<c, <<1 - D.order[c], D.order[c]>>>> : c \in D.cones})),
                     FSum({<<c, <<1 - D.order[c], 2 * D.order[c]>>>> : c \in D.corners}))
      curv == FSum({<<d, FAdd(FAdd(<<1, M(S,0,d)>>, <<1, M(S,1,d)>>), <<-1, 2>>)>> : d \in Chambers(S)})
      \* corner points of order 1 are not singular: the symbol lists only orders > 1
      cornerBags == {<<B, Bag({<<c, D.order[c]>> : c \in {x \in cornersOf(B) : D.order[x] > 1}})>> : B \in bnd}
  IN [curv |-> curv, chiOrb |-> chiOrb,
      cones |-> Bag({<<c, D.order[c]>> : c \in D.cones}),
      nbnd |-> Cardinality(bnd),
      cornerBags |-> Bag(cornerBags),
      x |-> 2 - (chiSurf + Cardinality(bnd)),            \* 2*handles (orientable) or number of cross-caps
      orientable |-> WeaklyOriented(S)]

(* the orbifold named by a Conway symbol, given as [cones, bnds, handles, crosscaps] *)
ChiOfSymbol(o) ==
   LET coneTerm == FSumSeq([k \in 1..Len(o.cones) |-> <<1 - o.cones[k], o.cones[k]>>])
       bndTerm(b) == FAdd(<<-1, 1>>, FSumSeq([k \in 1..Len(b) |-> <<1 - b[k], 2 * b[k]>>]))
       bnds == FSumSeq([k \in 1..Len(o.bnds) |-> bndTerm(o.bnds[k])])
   IN FAdd(FAdd(FAdd(<<2 - 2 * o.handles - o.crosscaps, 1>>, coneTerm), bnds), <<0, 1>>)
\* tear-drops and spindles: a sphere with one cone point or two of different order, or a disc with
\* one corner point or two of different order
BadSymbol(o) ==
   /\ o.handles = 0 /\ o.crosscaps = 0
   /\ \/ (Len(o.bnds) = 0 /\ (Len(o.cones) = 1 \/ (Len(o.cones) = 2 /\ o.cones[1] # o.cones[2])))
      \/ (Len(o.bnds) = 1 /\ Len(o.cones) = 0 /\ (Len(o.bnds[1]) = 1 \/ (Len(o.bnds[1]) = 2 /\ o.bnds[1][1] # o.bnds[1][2])))
\* cyclic sequences equal up to rotation and reversal
Rev(q) == [k \in 1..Len(q) |-> q[Len(q) + 1 - k]]
RotSeq(q, r) == [k \in 1..Len(q) |-> q[((k - 1 + r) % Len(q)) + 1]]
SameCycle(a, b) == Len(a) = Len(b) /\ (Len(a) = 0 \/ \E r \in 0..(Len(a)-1) : RotSeq(a, r) = b \/ RotSeq(a, r) = Rev(b))
\* two lists of boundary cycles equal as multisets of cycles up to rotation / reversal
SameBoundaries(A, B) ==
   /\ Len(A) = Len(B)
   /\ \A k \in 1..Len(A) : Cardinality({j \in 1..Len(A) : SameCycle(A[j], A[k])}) = Cardinality({j \in 1..Len(B) : SameCycle(B[j], A[k])})
SameOrbifold(o, p) == /\ BagOfSeq(o.cones) = BagOfSeq(p.cones) /\ SameBoundaries(o.bnds, p.bnds)
                      /\ o.handles = p.handles /\ o.crosscaps = p.crosscaps
=============================================================================

------------------------------- MODULE Fold -------------------------------
(* Congruence closure on a D-symbol as in DSet::fold / is_minimal / minimal_image (src/dsets.rs,
   src/derived.rs), as a machine over an abstract partition (cls: chamber -> least chamber of its
   class; the union-find behind it is UnionFind.tla).

   fold(p0, d, e): fails at once if the degrees of d and e differ; otherwise a queue of pairs is
   processed: a pair of different classes is united and, for every operation, the images are
   queued — or the whole fold fails if their degrees differ.
   minimal image: p := trivial partition; for d = 2..n: p := fold(p, 1, d) if that succeeds, else
   p stays.  Theorems checked by MC_Fold on whole universes of small connected symbols:
     - a successful fold returns the least congruence (equivalence closed under all operations)
       containing p0 and the pair, and it respects degrees;
     - a fold from a degree-respecting congruence p0 fails iff that least congruence would identify
       two chambers of different degrees;
     - the loop ends with the coarsest degree-respecting congruence (DSym!Coarsest), and
       is_minimal (all folds fail) holds iff that congruence is trivial. *)
EXTENDS DSym
DegSig(S, d) == [i \in 0..(S.dim-1) |-> M(S, i, d)]
DegMatch(S, d, e) == DegSig(S, d) = DegSig(S, e)
MergeCls(S, cls, a, b) == LET x == cls[a]  y == cls[b]  m == IF x < y THEN x ELSE y IN
   TLCEval([c \in Chambers(S) |-> IF cls[c] = x \/ cls[c] = y THEN m ELSE cls[c]])
\* one run of fold as a recursive step function on <<cls, queue>>; returns [ok, cls]
RECURSIVE FoldRun(_,_,_)
FoldRun(S, cls, queue) ==
   IF queue = <<>> THEN [ok |-> TRUE, cls |-> cls] ELSE
   LET d == Head(queue)[1]  e == Head(queue)[2] IN
   IF cls[d] = cls[e] THEN FoldRun(S, cls, Tail(queue)) ELSE
   IF \E i \in Idx(S) : ~DegMatch(S, Op(S,i,d), Op(S,i,e)) THEN [ok |-> FALSE, cls |-> cls]
   ELSE FoldRun(S, MergeCls(S, cls, d, e), Tail(queue) \o [i \in 1..(S.dim+1) |-> <<Op(S,i-1,d), Op(S,i-1,e)>>])
FoldOf(S, cls, d, e) == IF ~DegMatch(S, d, e) THEN [ok |-> FALSE, cls |-> cls] ELSE FoldRun(S, cls, <<<<d, e>>>>)
TrivialCls(S) == [c \in Chambers(S) |-> c]
RECURSIVE MinLoop(_,_,_)
MinLoop(S, cls, d) == IF d > S.n THEN cls ELSE
   LET r == FoldOf(S, cls, 1, d) IN MinLoop(S, IF r.ok THEN r.cls ELSE cls, d + 1)
MinimalPartition(S) == MinLoop(S, TrivialCls(S), 2)
IsMinimalByFolds(S) == \A d \in 2..S.n : ~FoldOf(S, TrivialCls(S), 1, d).ok
(* ---- the meaning ---- *)
\* least equivalence containing cls and the pair (d,e) that is closed under all operations
RECURSIVE CongClose(_,_)
CongClose(S, cls) ==
   LET bad == {p \in Chambers(S) \X Chambers(S) : cls[p[1]] = cls[p[2]] /\ \E i \in Idx(S) : cls[Op(S,i,p[1])] # cls[Op(S,i,p[2])]} IN
   IF bad = {} THEN cls ELSE
   LET p == CHOOSE q \in bad : TRUE
       i == CHOOSE j \in Idx(S) : cls[Op(S,j,p[1])] # cls[Op(S,j,p[2])]
   IN CongClose(S, MergeCls(S, cls, Op(S,i,p[1]), Op(S,i,p[2])))
LeastCongruence(S, cls, d, e) == CongClose(S, MergeCls(S, cls, d, e))
RespectsDegrees(S, cls) == \A a, b \in Chambers(S) : cls[a] = cls[b] => DegMatch(S, a, b)
=============================================================================

------------------------------- MODULE PGraph -------------------------------
(* Periodic graphs (src/pgraphs.rs; beyond the listed properties, bound at conformance level).
   An edge is [h, t, s]: from vertex h to the copy of vertex t shifted by the integer vector s.  Its reverse is
   [t, h, -s].  A periodic graph is built from any list of edges by replacing each edge by a canonical representative of
   {edge, reverse}, sorting and removing duplicates (BTreeSet); vertices are listed in ascending order; the incidences of v
   are, in edge order, the edge itself when v is its head and its reverse when v is its tail (a loop contributes both).

   `CanonCode` is what VectorLabelledEdge::canonical does; `CanonIntended` is what a representative of {edge, reverse}
   has to be (the first non-zero component of a loop's shift is positive).  They differ exactly on loops whose shift has a
   negative component after a positive first non-zero one, e.g. (1,-1): the code maps (1,-1) to (-1,1) and (-1,1) back to
   (1,-1), so it is not idempotent there and keeps an edge and its reverse apart.  MC_PGraph checks this characterisation
   and that CanonIntended is a true choice function; the deviation is documented in DESIGN.md section 6 (no listed property
   speaks about periodic graphs). *)
EXTENDS Integers, Sequences, FiniteSets, SequencesExt
NegVec(s) == [i \in 1..Len(s) |-> -s[i]]
NegEdge(e) == <<e[2], e[1], NegVec(e[3])>>
IsLoop(e) == e[1] = e[2]
CanonCode(e) == IF e[2] < e[1] THEN NegEdge(e)
                ELSE IF IsLoop(e) /\ \E i \in 1..Len(e[3]) : e[3][i] < 0 THEN NegEdge(e) ELSE e
FirstNonZero(s) == LET nz == {i \in 1..Len(s) : s[i] # 0} IN IF nz = {} THEN 0 ELSE s[CHOOSE i \in nz : \A j \in nz : i <= j]
CanonIntended(e) == IF e[2] < e[1] THEN NegEdge(e)
                    ELSE IF IsLoop(e) /\ FirstNonZero(e[3]) < 0 THEN NegEdge(e) ELSE e
RECURSIVE VecLess(_,_)
VecLess(a, b) == IF a = <<>> THEN FALSE ELSE IF Head(a) # Head(b) THEN Head(a) < Head(b) ELSE VecLess(Tail(a), Tail(b))
EdgeLess(a, b) == IF a[1] # b[1] THEN a[1] < b[1] ELSE IF a[2] # b[2] THEN a[2] < b[2] ELSE VecLess(a[3], b[3])
EdgesOf(input) == SetToSortSeq({CanonCode(input[k]) : k \in 1..Len(input)}, EdgeLess)
VerticesOf(E) == SetToSortSeq({E[k][1] : k \in 1..Len(E)} \cup {E[k][2] : k \in 1..Len(E)}, <)
RECURSIVE IncFrom(_,_,_)
IncFrom(E, v, k) == IF k > Len(E) THEN <<>> ELSE
   (IF E[k][1] = v THEN <<E[k]>> ELSE <<>>) \o (IF E[k][2] = v THEN <<NegEdge(E[k])>> ELSE <<>>) \o IncFrom(E, v, k + 1)
Incidences(E, v) == IncFrom(E, v, 1)
MixedLoop(e) == IsLoop(e) /\ FirstNonZero(e[3]) > 0 /\ \E i \in 1..Len(e[3]) : e[3][i] < 0
=============================================================================

---------------------------- MODULE FreeGroup ----------------------------
(* Free groups: a word is a sequence of non-zero integers, letter g > 0 a generator and -g
   its inverse.  Everything is defined from free reduction; nothing mirrors the code. *)
EXTENDS Integers, Sequences, FiniteSets, SequencesExt
RECURSIVE Red(_,_)
Red(acc, w) == IF w = <<>> THEN acc ELSE
   IF Head(w) = 0 THEN Red(acc, Tail(w))
   ELSE IF acc # <<>> /\ acc[Len(acc)] = -Head(w) THEN Red(SubSeq(acc,1,Len(acc)-1), Tail(w))
   ELSE Red(Append(acc, Head(w)), Tail(w))
Reduce(w) == Red(<<>>, w)
Reduced(w) == \A k \in 1..Len(w) : w[k] # 0 /\ (k < Len(w) => w[k] # -w[k+1])
CycReduced(w) == Reduced(w) /\ (Len(w) >= 2 => w[1] # -w[Len(w)])
Mul(a, b) == Reduce(a \o b)
Inv(w) == [k \in 1..Len(w) |-> -w[Len(w)+1-k]]
RECURSIVE Pow(_,_)
Pow(w, m) == IF m < 0 THEN Pow(Inv(w), -m) ELSE IF m = 0 THEN <<>> ELSE Mul(Pow(w, m-1), w)
Comm(a, b) == Mul(Mul(Mul(a, b), Inv(a)), Inv(b))
\* rotation by i letters (any integer), freely reduced afterwards
Rot(w, i) == IF w = <<>> THEN <<>> ELSE
   LET n == Len(w) s == ((i % n) + n) % n IN Reduce([k \in 1..n |-> w[((k-1+s) % n) + 1]])
\* all rotations of the word and of its inverse
\* cyclic reduction of a reduced word: strip cancelling first/last letters (the conjugacy class keeps its rotations)
RECURSIVE CycReduce(_)
CycReduce(w) == IF Len(w) >= 2 /\ w[1] = -w[Len(w)] THEN CycReduce(SubSeq(w, 2, Len(w) - 1)) ELSE w
\* a word up to conjugation and inversion: rotations and inverses of its cyclic reduction
ConjClass(w) == LET c == CycReduce(w) IN IF c = <<>> THEN {<<>>} ELSE UNION {{Rot(c, i), Inv(Rot(c, i))} : i \in 0..(Len(c)-1)}
RelPerms(w) == IF w = <<>> THEN {<<>>} ELSE UNION {{Rot(w, i), Inv(Rot(w, i))} : i \in 0..(Len(w)-1)}
\* exponent sum of generator g
RECURSIVE ExpSum(_,_)
ExpSum(w, g) == IF w = <<>> THEN 0 ELSE (IF Head(w) = g THEN 1 ELSE IF Head(w) = -g THEN -1 ELSE 0) + ExpSum(Tail(w), g)

(* The order the library happens to use (conformance level only: the property asks for *a*
   strict total order): positive letters before negative ones, then by magnitude; a proper
   prefix is smaller. *)
LLess(x, y) == IF x > 0 /\ y > 0 THEN x < y ELSE y < x
RECURSIVE WLess(_,_)
WLess(a, b) == IF a = <<>> THEN b # <<>> ELSE IF b = <<>> THEN FALSE
               ELSE IF Head(a) # Head(b) THEN LLess(Head(a), Head(b)) ELSE WLess(Tail(a), Tail(b))
Cmp(a, b) == IF a = b THEN 0 ELSE IF WLess(a, b) THEN -1 ELSE 1
RelRep(w) == CHOOSE x \in RelPerms(w) : \A y \in RelPerms(w) : ~WLess(y, x)
=============================================================================

---------------------------- MODULE MaxFlow ----------------------------
(* The augmenting-path machine behind min_edge_cut (src/util/cutsets.rs): the state is the set
   of edges on the current paths; `Augment` pushes one unit along ANY simple path of the
   residual graph (the code uses a BFS path, one of them), `Finish` reads the cut off the set
   of vertices still reachable in the residual graph.  Graph, source and sink are chosen in
   the initial state, so TLC ranges over every simple digraph on 1..N. *)
EXTENDS Graphs2
CONSTANT N
V == 1..N
Pairs == {p \in V \X V : p[1] # p[2]}
VARIABLES E, s, t, F, k, done, cut, inside
vars == <<E, s, t, F, k, done, cut, inside>>
Init == /\ E \in SUBSET Pairs /\ s \in V /\ t \in V /\ s # t
        /\ F = {} /\ k = 0 /\ done = FALSE /\ cut = {} /\ inside = {}
\* simple paths of the residual graph from s to t, as sequences of vertices
RECURSIVE Extend(_,_)
Extend(R, paths) ==
   LET more == {Append(p, a[2]) : p \in {q \in paths : q[Len(q)] # t}, a \in R} IN
   LET ok == {p \in more : /\ <<p[Len(p)-1], p[Len(p)]>> \in R
                            /\ \A i \in 1..(Len(p)-1) : p[i] # p[Len(p)]} IN
   IF ok \subseteq paths THEN paths ELSE Extend(R, paths \cup ok)
AugPaths == {p \in Extend(Residual(E, F), {<<s>>}) : p[Len(p)] = t}
RECURSIVE Push(_,_,_)
Push(F0, p, i) == IF i >= Len(p) THEN F0 ELSE
   LET v == p[i] w == p[i+1] IN Push(IF <<w, v>> \in F0 THEN F0 \ {<<w, v>>} ELSE F0 \cup {<<v, w>>}, p, i + 1)
Augment == /\ ~done /\ \E p \in AugPaths : F' = Push(F, p, 1)
           /\ k' = k + 1 /\ UNCHANGED <<E, s, t, done, cut, inside>>
Finish == /\ ~done /\ AugPaths = {}
          /\ LET seen == Reach(Residual(E, F), s) IN
             /\ inside' = seen
             /\ cut' = {e \in E : e[1] \in seen /\ e[2] \notin seen}
          /\ done' = TRUE /\ UNCHANGED <<E, s, t, F, k>>
Next == Augment \/ Finish
Spec == Init /\ [][Next]_vars
(* invariants *)
FlowValid == /\ F \subseteq E
             /\ \A v \in V \ {s, t} : Cardinality({e \in F : e[1] = v}) = Cardinality({e \in F : e[2] = v})
             /\ FlowValue(F, s) = k
\* the flow never uses both directions of an antiparallel pair (pushing along w->v cancels v->w instead)
NoAntiparallel == \A e \in F : <<e[2], e[1]>> \notin F
\* weak duality: no separating edge set is smaller than the number of paths pushed so far
WeakDuality == k <= MinEdgeCutBySubsets(E, s, t)
\* at Finish: the cut read off the residual graph separates, has exactly k edges, hence is minimum,
\* the inside set is what stays reachable, and the deterministic oracle agrees
CutCorrect == done => /\ SeparatesE(E, cut, s, t)
                      /\ Cardinality(cut) = k
                      /\ k = MinEdgeCutBySubsets(E, s, t)
                      /\ inside = Reach(E \ cut, s)
                      /\ MaxFlowValue(E, s, t) = k
\* Menger for vertices, tying the split-graph flow to minimum vertex cuts
VertexMenger == (<<s, t>> \notin E) => MaxVertexDisjoint(E, V, s, t) = MinVertexCutBySubsets(E, V, s, t)
=============================================================================

------------------------------- MODULE Mfd3 -------------------------------
(* 3-dimensional D-sets / D-symbols as cell decompositions of manifolds: a branch-free symbol
   whose tiles ((0,1,2)-components) and vertex figures ((1,2,3)-components) are spheres.  A closed
   surface given by a loopless component X on an index triple <<a,b,c>> has Euler characteristic
   #(a,b)-orbits - #(a,c)-orbits + #(b,c)-orbits; it is a sphere iff that number is 2 (the
   component is connected by construction, and a closed connected surface with chi = 2 is a
   sphere whether or not orientability is known). *)
EXTENDS DSym, ZModules, FreeGroup
RECURSIVE OrbitsOfI(_,_,_)
OrbitsOfI(S, I, rest) == IF rest = {} THEN {} ELSE
   LET d == Least(rest)  O == Orbit(S, I, d) IN {O} \cup OrbitsOfI(S, I, rest \ O)
NOrb(S, I, X) == Cardinality(OrbitsOfI(S, I, X))
ChiComp(S, t, X) == NOrb(S, {t[1],t[2]}, X) - NOrb(S, {t[1],t[3]}, X) + NOrb(S, {t[2],t[3]}, X)
LooplessOn(S, I, X) == \A d \in X, i \in I : Op(S,i,d) # d
SphereComps(S, t) == \A X \in OrbitsOfI(S, {t[1],t[2],t[3]}, Chambers(S)) : LooplessOn(S, {t[1],t[2],t[3]}, X) /\ ChiComp(S, t, X) = 2
\* no branching on ANY index pair: adjacent pairs carry v = 1 and non-adjacent operations never coincide on a chamber
\* (s_i d = s_j d with |i-j| > 1 is a rotation axis of order 2)
BranchFree(S) == /\ \A i \in 1..S.dim, d \in Chambers(S) : S.v[i][d] = 1
                 /\ \A i, j \in Idx(S) : (j > i + 1) => \A d \in Chambers(S) : Op(S,i,d) # Op(S,j,d)
Manifold3(S) == S.dim = 3 /\ IsDSet(S) /\ Complete(S) /\ Commuting(S) /\ SphereComps(S, <<0,1,2>>) /\ SphereComps(S, <<1,2,3>>)
NTiles(S) == NOrb(S, {0,1,2}, Chambers(S))
NVertices(S) == NOrb(S, {1,2,3}, Chambers(S))
NoDegree2(S) == \A d \in Chambers(S) : R(S,0,1,d) # 2 /\ R(S,1,2,d) # 2 /\ R(S,2,3,d) # 2
\* first homology of a presentation <1..ng | rels (words)>
ExpMatrix(ngens, rels) == [r \in 1..Len(rels) |-> [g \in 1..ngens |-> ExpSum(rels[r], g)]]
H1(p) == AbelianInvariants(ExpMatrix(p.ng, p.rels), p.ng)
AdmissibleSheets == {1, 2, 3, 4, 6, 8, 12, 24}
=============================================================================

----------------------------- MODULE SetClasses -----------------------------
(* The universe behind "every isomorphism class of connected D-sets exactly once" (C06):
   all tuples of involutions on n chambers whose non-adjacent operations commute, and their
   classes keyed by the specification's canonical form of D-sets (DSym!CanonSet).

   Two descriptions of the same set of classes:
     ClassesFull     every tuple of involutions (the definition);
     ClassesReduced  only tuples whose first operation is the normal form (1 2)(3 4)..(2k-1 2k)
                     of its conjugacy class.  Conjugating all operations of a D-set by one
                     permutation is an isomorphism, and every involution is conjugate to exactly
                     one normal form, so both descriptions have the same classes.  The lemma
                     ClassesFull = ClassesReduced is model-checked for small n in MC_SetClasses;
                     the reduced universe is what makes n = 7 (dim 2) and n = 6 (dim 3) feasible. *)
EXTENDS DSym
\* involutions = partial matchings, built by deciding the partner of the smallest unmatched chamber (no filter over n^n maps)
RECURSIVE MatchingsOf(_)
MatchingsOf(S) == IF S = {} THEN {<<>>} ELSE
   LET x == Min(S) IN
   {(x :> x) @@ f : f \in MatchingsOf(S \ {x})} \cup
   UNION {{(x :> y) @@ (y :> x) @@ f : f \in MatchingsOf(S \ {x, y})} : y \in S \ {x}}
InvolutionsOn(n) == MatchingsOf(1..n)
InvolutionsByFilter(n) == {f \in [1..n -> 1..n] : \A d \in 1..n : f[f[d]] = d}
Commute(f, g, n) == \A d \in 1..n : f[g[d]] = g[f[d]]
Centraliser(I, f, n) == {g \in I : Commute(f, g, n)}
NormalInvolution(n, k) == [d \in 1..n |-> IF d <= 2 * k THEN (IF d % 2 = 1 THEN d + 1 ELSE d - 1) ELSE d]
NormalInvolutions(n) == {NormalInvolution(n, k) : k \in 0..(n \div 2)}
MkSet(n, dm, t) == [n |-> n, dim |-> dm, op |-> t]
ClassesOfTuples(n, dm, tuples) == {CanonSet(T) : T \in {U \in {MkSet(n, dm, t) : t \in tuples} : Connected(U)}}
\* tuples <<s0, .., s_dm>> with s0 drawn from First and all other operations from I; s_i s_j commute for j > i + 1
TuplesFrom(n, dm, First, I) ==
   IF dm = 1 THEN {<<a, b>> : a \in First, b \in I}
   ELSE IF dm = 2 THEN UNION {{<<a, b, c>> : b \in I, c \in Centraliser(I, a, n)} : a \in First}
   ELSE UNION {UNION {{<<a, b, c, d>> : b \in Centraliser(I, d, n), c \in Centraliser(I, a, n)} : d \in Centraliser(I, a, n)} : a \in First}
ClassesFull(n, dm) == LET I == InvolutionsOn(n) IN ClassesOfTuples(n, dm, TuplesFrom(n, dm, I, I))
\* accumulated per first operation so that no single constructed set exceeds TLC's bound
ClassesReduced(n, dm) == LET I == InvolutionsOn(n) IN
   UNION {ClassesOfTuples(n, dm, TuplesFrom(n, dm, {a}, I)) : a \in NormalInvolutions(n)}
=============================================================================

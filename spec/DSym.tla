------------------------------- MODULE DSym -------------------------------
(* Delaney-Dress sets and symbols — the declarative layer.

   A D-set is a record [n, dim, op] with op[i+1][d] \in 0..n the image of chamber d under
   operation i (0 = undefined: partial D-sets occur while symbols are being built).  A D-symbol
   adds v[i+1][d], the branching number of the (i,i+1)-orbit through d (0 = undefined), stored
   per chamber so that nothing depends on any numbering of orbits.  Everything below is
   written from the mathematical definitions (reachability, iteration of s_j s_i, fixed
   points); no definition mirrors an algorithm of the library. *)
EXTENDS Integers, Sequences, FiniteSets, FiniteSetsExt, SequencesExt, TLC

Chambers(S) == 1..S.n
Idx(S) == 0..S.dim
Op(S, i, d) == S.op[i+1][d]
V(S, i, d) == S.v[i+1][d]

(* ---------------------------------------------------------------- validity *)
ShapeOK(S) == /\ S.n >= 1 /\ S.dim >= 1 /\ Len(S.op) = S.dim + 1
              /\ \A i \in Idx(S) : Len(S.op[i+1]) = S.n /\ \A d \in Chambers(S) : Op(S,i,d) \in 0..S.n
\* partial involutions: where defined, each operation is its own inverse
IsDSet(S) == /\ ShapeOK(S)
             /\ \A i \in Idx(S), d \in Chambers(S) : Op(S,i,d) # 0 => Op(S,i,Op(S,i,d)) = d
Complete(S) == \A i \in Idx(S), d \in Chambers(S) : Op(S,i,d) # 0
\* operations whose indices differ by more than one commute
Commuting(S) == \A i, j \in Idx(S) : (j > i + 1) =>
                   \A d \in Chambers(S) : (Op(S,i,d) # 0 /\ Op(S,j,d) # 0 /\ Op(S,j,Op(S,i,d)) # 0 /\ Op(S,i,Op(S,j,d)) # 0)
                                          => Op(S,i,Op(S,j,d)) = Op(S,j,Op(S,i,d))

(* ---------------------------------------------------------------- orbits *)
RECURSIVE Closure(_,_,_,_)
Closure(S, I, frontier, seen) ==
   IF frontier = {} THEN seen
   ELSE LET nxt == ({Op(S,i,d) : i \in I, d \in frontier} \ {0}) \ seen
        IN Closure(S, I, nxt, seen \cup nxt)
\* the orbit of d under the operations with index in I = the chambers reachable from d
Orbit(S, I, d) == Closure(S, I \cap Idx(S), {d}, {d})
Orbits(S, I) == {Orbit(S, I, d) : d \in Chambers(S)}
Connected(S) == Orbit(S, Idx(S), 1) = Chambers(S)
Loopless(S) == \A i \in Idx(S), d \in Chambers(S) : Op(S,i,d) # d
Least(P) == CHOOSE d \in P : \A e \in P : d <= e

\* r(i,j,d): length of the orbit of d under the product s_j s_i (0 when the walk meets an
\* undefined image)
RECURSIVE RLen(_,_,_,_,_,_)
RLen(S, i, j, d, e, k) ==
   LET ei == Op(S, i, e) IN IF ei = 0 THEN 0 ELSE
   LET f == Op(S, j, ei) IN IF f = 0 THEN 0 ELSE IF f = d THEN k ELSE
   IF k > 2 * S.n THEN 0 ELSE RLen(S, i, j, d, f, k + 1)
R(S, i, j, d) == RLen(S, i, j, d, d, 1)
\* branching and degree for arbitrary index pairs
VV(S, i, j, d) == IF i = j THEN 1
                  ELSE IF j = i + 1 THEN V(S, i, d) ELSE IF i = j + 1 THEN V(S, j, d)
                  ELSE IF Op(S,i,d) = Op(S,j,d) THEN 2 ELSE 1
MM(S, i, j, d) == R(S, i, j, d) * VV(S, i, j, d)
M(S, i, d) == R(S, i, i+1, d) * V(S, i, d)

IsDSym(S) == /\ IsDSet(S) /\ Complete(S) /\ Len(S.v) = S.dim
             /\ \A i \in 0..(S.dim-1) : /\ Len(S.v[i+1]) = S.n
                   /\ \A d \in Chambers(S) : /\ V(S,i,d) \in Nat
                                             /\ V(S,i,d) = V(S,i,Op(S,i,d)) /\ V(S,i,d) = V(S,i,Op(S,i+1,d))
CompleteSym(S) == IsDSym(S) /\ \A i \in 0..(S.dim-1), d \in Chambers(S) : V(S,i,d) >= 1

(* ---------------------------------------------------------------- orientation *)
\* the chamber graph restricted to non-loop edges is bipartite (weakly oriented); oriented = also loopless
\* breadth-first levels over all components: <<chambers at even distance from their component's
\* least chamber, chambers at odd distance>>
RECURSIVE Parity(_,_,_,_,_)
Parity(S, frontier, seen, par, acc) ==
   IF frontier = {} THEN
      (IF seen = Chambers(S) THEN acc
       ELSE LET d == Least(Chambers(S) \ seen) IN Parity(S, {d}, seen \cup {d}, 0, <<acc[1] \cup {d}, acc[2]>>))
   ELSE LET nxt == ({Op(S,i,d) : i \in Idx(S), d \in frontier} \ {0}) \ seen
        IN Parity(S, nxt, seen \cup nxt, 1 - par,
                  IF par = 0 THEN <<acc[1], acc[2] \cup nxt>> ELSE <<acc[1] \cup nxt, acc[2]>>)
\* bipartite: every non-loop edge joins chambers of different parity (a graph is bipartite iff its
\* breadth-first levels 2-colour it)
WeaklyOriented(S) == LET c == Parity(S, {}, {}, 0, <<{}, {}>>) IN
   \A d \in Chambers(S), i \in Idx(S) : (Op(S,i,d) # 0 /\ Op(S,i,d) # d) => ((d \in c[1]) # (Op(S,i,d) \in c[1]))
Oriented(S) == Loopless(S) /\ WeaklyOriented(S)

(* ---------------------------------------------------------------- morphisms *)
\* shortest-path words from chamber 1 (connected symbols)
RECURSIVE Paths(_,_,_)
Paths(S, frontier, W) ==
   IF frontier = {} THEN W
   ELSE LET cand == {p \in frontier \X Idx(S) : Op(S,p[2],p[1]) # 0 /\ Op(S,p[2],p[1]) \notin DOMAIN W}
            tgt == {Op(S,p[2],p[1]) : p \in cand}
            pick(t) == CHOOSE p \in cand : Op(S,p[2],p[1]) = t
            W2 == TLCEval([t \in (DOMAIN W) \cup tgt |-> IF t \in DOMAIN W THEN W[t] ELSE LET p == pick(t) IN Append(W[p[1]], p[2])])
        IN Paths(S, tgt, W2)
PathWords(S) == TLCEval(Paths(S, {1}, [t \in {1} |-> <<>>]))
RECURSIVE Walk(_,_,_)
Walk(S, d, w) == IF w = <<>> \/ d = 0 THEN d ELSE Walk(S, Op(S, Head(w), d), Tail(w))

\* f : chambers of S -> chambers of T commutes with all operations and preserves all degrees
IsMorphism(S, T, f) ==
   /\ DOMAIN f = Chambers(S) /\ \A d \in Chambers(S) : f[d] \in Chambers(T)
   /\ \A d \in Chambers(S) : /\ \A i \in Idx(S) : f[Op(S,i,d)] = Op(T,i,f[d])
                             /\ \A i \in 0..(S.dim-1) : M(S,i,d) = M(T,i,f[d])
\* for connected S a morphism is determined by the image of chamber 1
MorphismCandidate(S, T, W, e) == TLCEval([d \in Chambers(S) |-> Walk(T, e, W[d])])
Morphisms(S, T) ==
   IF S.dim # T.dim THEN {} ELSE
   LET W == PathWords(S) IN
   {f \in {MorphismCandidate(S, T, W, e) : e \in Chambers(T)} : IsMorphism(S, T, f)}
Automorphisms(S) == Morphisms(S, S)
Isomorphic(S, T) == S.n = T.n /\ S.dim = T.dim /\ Morphisms(S, T) # {}
\* D-set versions (no degrees)
IsSetMorphism(S, T, f) == /\ DOMAIN f = Chambers(S) /\ \A d \in Chambers(S) : f[d] \in Chambers(T)
                          /\ \A d \in Chambers(S), i \in Idx(S) : f[Op(S,i,d)] = Op(T,i,f[d])
SetMorphisms(S, T) == LET W == PathWords(S) IN
   {f \in {MorphismCandidate(S, T, W, e) : e \in Chambers(T)} : IsSetMorphism(S, T, f)}
SetIsomorphic(S, T) == S.n = T.n /\ S.dim = T.dim /\ SetMorphisms(S, T) # {}

(* ---------------------------------------------------------------- derived symbols *)
IsPerm(p, n) == DOMAIN p = 1..n /\ {p[d] : d \in 1..n} = 1..n
PermInv(p) == TLCEval([e \in DOMAIN p |-> CHOOSE d \in DOMAIN p : p[d] = e])
\* chamber d of S becomes chamber p[d]
Renumber(S, p) == LET q == PermInv(p) IN
   [n |-> S.n, dim |-> S.dim,
    op |-> [i \in 1..(S.dim+1) |-> [e \in 1..S.n |-> IF S.op[i][q[e]] = 0 THEN 0 ELSE p[S.op[i][q[e]]]]],
    v |-> [i \in 1..S.dim |-> [e \in 1..S.n |-> S.v[i][q[e]]]]]
\* T is S with chamber d renamed p[d] (checked pointwise: linear, no inverse needed)
IsRenumbering(S, T, p) ==
   /\ T.n = S.n /\ T.dim = S.dim /\ IsPerm(p, S.n)
   /\ \A i \in 1..(S.dim+1), d \in 1..S.n : T.op[i][p[d]] = (IF S.op[i][d] = 0 THEN 0 ELSE p[S.op[i][d]])
   /\ \A i \in 1..S.dim, d \in 1..S.n : T.v[i][p[d]] = S.v[i][d]
RenumberSet(S, p) == LET q == PermInv(p) IN
   [n |-> S.n, dim |-> S.dim,
    op |-> [i \in 1..(S.dim+1) |-> [e \in 1..S.n |-> IF S.op[i][q[e]] = 0 THEN 0 ELSE p[S.op[i][q[e]]]]]]
Dual(S) == [n |-> S.n, dim |-> S.dim,
            op |-> [i \in 1..(S.dim+1) |-> S.op[S.dim + 2 - i]],
            v |-> [i \in 1..S.dim |-> S.v[S.dim + 1 - i]]]
SetOf(S) == [n |-> S.n, dim |-> S.dim, op |-> S.op]

(* ---------------------------------------------------------------- canonical form (the spec's own) *)
\* rooted numbering: breadth-first from r, neighbours taken in index order
RECURSIVE AddNew(_,_,_,_)
AddNew(S, order, d, i) == IF i > S.dim THEN order
   ELSE LET e == Op(S, i, d) IN AddNew(S, IF e = 0 \/ e \in ToSet(order) THEN order ELSE Append(order, e), d, i + 1)
RECURSIVE Bfs(_,_,_)
Bfs(S, order, k) == IF k > Len(order) THEN order ELSE Bfs(S, AddNew(S, order, order[k], 0), k + 1)
RootedPerm(S, r) == LET order == Bfs(S, <<r>>, 1) IN TLCEval([d \in 1..S.n |-> CHOOSE k \in 1..S.n : order[k] = d])
Flat(S) == FlattenSeq(S.op) \o (IF "v" \in DOMAIN S THEN FlattenSeq(S.v) ELSE <<>>)
RECURSIVE SeqLess(_,_)
SeqLess(a, b) == IF a = <<>> THEN FALSE ELSE IF Head(a) # Head(b) THEN Head(a) < Head(b) ELSE SeqLess(Tail(a), Tail(b))
\* connected symbols: a relabelling of S by construction, independent of the numbering of S
Canon(S) == LET cands == {Renumber(S, RootedPerm(S, r)) : r \in Chambers(S)}
            IN CHOOSE c \in cands : \A c2 \in cands : ~SeqLess(Flat(c2), Flat(c))
CanonSet(S) == LET cands == {RenumberSet(S, RootedPerm(S, r)) : r \in Chambers(S)}
               IN CHOOSE c \in cands : \A c2 \in cands : ~SeqLess(Flat(c2), Flat(c))

(* ---------------------------------------------------------------- congruences and quotients *)
\* the coarsest equivalence that respects all degrees and is compatible with all operations:
\* partition refinement from the degree signature; classes named by their least chamber
\* (TLCEval forces the function to an explicit value: nested lazily evaluated functions would be
\* re-evaluated at every application, exponentially in the number of refinement rounds)
Canonise(S, key) == TLCEval([d \in Chambers(S) |-> Least({e \in Chambers(S) : key[e] = key[d]})])
RECURSIVE Refine(_,_)
Refine(S, cls) ==
   LET key == TLCEval([d \in Chambers(S) |-> <<cls[d], [i \in Idx(S) |-> cls[Op(S,i,d)]]>>])
       nxt == Canonise(S, key)
   IN IF nxt = cls THEN cls ELSE Refine(S, nxt)
Coarsest(S) == Refine(S, Canonise(S, TLCEval([d \in Chambers(S) |-> [i \in 0..(S.dim-1) |-> M(S,i,d)]])))
\* cls is a congruence that respects degrees
IsCongruence(S, cls) == \A d, e \in Chambers(S) : cls[d] = cls[e] =>
                           /\ \A i \in 0..(S.dim-1) : M(S,i,d) = M(S,i,e)
                           /\ \A i \in Idx(S) : cls[Op(S,i,d)] = cls[Op(S,i,e)]
NumClasses(S) == Cardinality({Coarsest(S)[d] : d \in Chambers(S)})
Quotient(S) ==
   LET cls == Coarsest(S)
       reps == {cls[d] : d \in Chambers(S)}
       num == [r \in reps |-> Cardinality({q \in reps : q <= r})]
       rep == [k \in 1..Cardinality(reps) |-> CHOOSE r \in reps : num[r] = k]
       ops == [i \in 1..(S.dim+1) |-> [k \in 1..Cardinality(reps) |-> num[cls[Op(S,i-1,rep[k])]]]]
       Q0 == [n |-> Cardinality(reps), dim |-> S.dim, op |-> ops]
       vs == [i \in 1..S.dim |-> [k \in 1..Cardinality(reps) |-> M(S,i-1,rep[k]) \div R(Q0,i-1,i,k)]]
   IN [n |-> Q0.n, dim |-> S.dim, op |-> ops, v |-> vs]

(* ---------------------------------------------------------------- coverings *)
\* proj : chambers of C -> chambers of S is a covering map: commutes, preserves degrees, equal fibres
IsCovering(C, S, proj) ==
   /\ C.dim = S.dim /\ IsMorphism(C, S, proj)
   /\ \A a, b \in Chambers(S) : Cardinality({d \in Chambers(C) : proj[d] = a}) = Cardinality({d \in Chambers(C) : proj[d] = b})
\* the projection all cover constructors of the library use: sheet k holds chambers k*n+1 .. (k+1)*n
StdProj(C, S) == [d \in Chambers(C) |-> ((d - 1) % S.n) + 1]
\* C covers S: by the library's standard projection (a witness that costs nothing to check) or, failing that, by ANY
\* morphism with equal fibres (a connected C has at most |S| morphisms onto S, each determined by the image of chamber 1)
IsCoverOf(C, S) == IF C.n % S.n = 0 /\ IsCovering(C, S, StdProj(C, S)) THEN TRUE
                ELSE \E f \in Morphisms(C, S) : IsCovering(C, S, f)
\* the sub-symbol on the orbit of d under the indices in the sequence idcs, chambers renumbered increasingly
Sub(S, idcs, d) ==
   LET O == Orbit(S, ToSet(idcs), d)
       num == [x \in O |-> Cardinality({y \in O : y <= x})]
       src == [k \in 1..Cardinality(O) |-> CHOOSE x \in O : num[x] = k]
   IN [n |-> Cardinality(O), dim |-> Len(idcs) - 1,
       op |-> [i \in 1..Len(idcs) |-> [k \in 1..Cardinality(O) |-> IF Op(S, idcs[i], src[k]) = 0 THEN 0 ELSE num[Op(S, idcs[i], src[k])]]],
       v |-> [i \in 1..(Len(idcs)-1) |-> [k \in 1..Cardinality(O) |-> VV(S, idcs[i], idcs[i+1], src[k])]]]
=============================================================================

---------------------------- MODULE GenSym ----------------------------
(* The declarative content of C07 for a connected complete 2-D D-set S0: the euclidean,
   minimal hyperbolic and good spherical branching assignments, modulo the automorphisms of
   S0.  An assignment is a function from the (i,i+1)-orbits (as pairs <<i, set>>) to naturals.
   Everything is computed from the definitions: the orbit formula for the curvature (a lemma
   tying it to the definitional curvature of Surface2D is checked by MC_GenSym), the list of
   good spherical orbifolds written as data, the spec's own automorphisms.

   Search box: branching up to BOX = 9, pruned only by "curvature with the remaining orbits at
   their minimum is >= -1" — lowering one branching number by one raises the curvature by less
   than 1, so every minimal hyperbolic assignment other than the all-minimum one survives. *)
EXTENDS Surface2D
BOX == 9
AdjOrbits(S0) == UNION {{<<i, O>> : O \in OrbitsOf(S0, i, i+1, Chambers(S0))} : i \in {0,1}}
IsChainO(S0, o) == \E d \in o[2] : Op(S0,o[1],d) = d \/ Op(S0,o[1]+1,d) = d
RLenO(S0, o) == R(S0, o[1], o[1]+1, Least(o[2]))
\* least branching with degree r*v >= 3
VMin(S0, o) == LET r == RLenO(S0, o) IN IF r = 1 THEN 3 ELSE IF r = 2 THEN 2 ELSE 1
KO(o, S0) == IF IsChainO(S0, o) THEN 1 ELSE 2
WithV(S0, a) == [n |-> S0.n, dim |-> 2, op |-> S0.op,
                 v |-> TLCEval([i \in 1..2 |-> [d \in 1..S0.n |-> a[CHOOSE o \in DOMAIN a : o[1] = i-1 /\ d \in o[2]]]])]
\* curvature from orbits: sum over adjacent orbits of k/v (k = 1 for chains, 2 for cycles) minus n/2
CurvA(S0, a) == FAdd(FSum({<<o, <<KO(o,S0), a[o]>>>> : o \in DOMAIN a}), <<-S0.n, 2>>)
Sign(f) == IF f[1] > 0 THEN 1 ELSE IF f[1] < 0 THEN -1 ELSE 0
RECURSIVE Assign(_,_,_)
Assign(S0, todo, acc) == IF todo = {} THEN {acc} ELSE
   LET o == CHOOSE x \in todo : TRUE
       rest == todo \ {o}
       full(v) == TLCEval([x \in (DOMAIN acc) \cup {o} \cup rest |-> IF x \in DOMAIN acc THEN acc[x] ELSE IF x = o THEN v ELSE VMin(S0, x)])
       ok(v) == LET c == CurvA(S0, full(v)) IN c[1] + c[2] >= 0
   IN UNION {Assign(S0, rest, TLCEval([x \in (DOMAIN acc) \cup {o} |-> IF x = o THEN v ELSE acc[x]])) : v \in {w \in VMin(S0,o)..BOX : ok(w)}}
AllA(S0) == Assign(S0, AdjOrbits(S0), <<>>)
BaseA(S0) == TLCEval([o \in AdjOrbits(S0) |-> VMin(S0, o)])
Lower(a, o) == TLCEval([x \in DOMAIN a |-> IF x = o THEN a[x] - 1 ELSE a[x]])
\* negative curvature that becomes non-negative when any single branching number (that may be
\* lowered at all: degrees stay >= 3) is lowered by one
MinHyp(S0, a) == Sign(CurvA(S0, a)) = -1 /\ \A o \in DOMAIN a : a[o] > VMin(S0, o) => Sign(CurvA(S0, Lower(a, o))) >= 0

\* good spherical orbifolds as data: <<cones descending, number of boundaries, corners descending, cross-caps>>
GOOD == { <<<<>>,0,<<>>,0>>, <<<<>>,1,<<>>,0>>, <<<<>>,0,<<>>,1>>,
          <<<<5,3,2>>,0,<<>>,0>>, <<<<4,3,2>>,0,<<>>,0>>, <<<<3,3,2>>,0,<<>>,0>>,
          <<<<4,2,2>>,0,<<>>,0>>, <<<<3,2,2>>,0,<<>>,0>>, <<<<2,2,2>>,0,<<>>,0>>,
          <<<<4,4>>,0,<<>>,0>>, <<<<3,3>>,0,<<>>,0>>, <<<<2,2>>,0,<<>>,0>>,
          <<<<>>,1,<<5,3,2>>,0>>, <<<<>>,1,<<4,3,2>>,0>>, <<<<>>,1,<<3,3,2>>,0>>, <<<<3>>,1,<<2>>,0>>,
          <<<<>>,1,<<4,2,2>>,0>>, <<<<>>,1,<<3,2,2>>,0>>, <<<<>>,1,<<2,2,2>>,0>>, <<<<2>>,1,<<4>>,0>>, <<<<2>>,1,<<3>>,0>>, <<<<2>>,1,<<2>>,0>>,
          <<<<>>,1,<<4,4>>,0>>, <<<<>>,1,<<3,3>>,0>>, <<<<>>,1,<<2,2>>,0>>, <<<<4>>,1,<<>>,0>>, <<<<3>>,1,<<>>,0>>, <<<<2>>,1,<<>>,0>>,
          <<<<4>>,0,<<>>,1>>, <<<<3>>,0,<<>>,1>>, <<<<2>>,0,<<>>,1>> }
RECURSIVE InsDesc(_,_)
InsDesc(x, q) == IF q = <<>> THEN <<x>> ELSE IF x >= Head(q) THEN <<x>> \o q ELSE <<Head(q)>> \o InsDesc(x, Tail(q))
DescSeq(f, set) == FoldSet(LAMBDA c, acc : InsDesc(f[c], acc), <<>>, set)
OrbKey(S) ==
  LET D == OrbData(S)
      chiSurf == S.n + Cardinality(D.items) - ((3 * S.n + Cardinality(D.mirrors)) \div 2)
      bnd == BComps(D, D.mirrors)
      x == 2 - (chiSurf + Cardinality(bnd))
      realCorners == {c \in D.corners : D.order[c] > 1}
  IN IF Cardinality(bnd) > 1 \/ (WeaklyOriented(S) /\ x # 0) \/ x > 1 THEN <<"other">>
     ELSE <<DescSeq(D.order, D.cones), Cardinality(bnd), DescSeq(D.order, realCorners), x>>
GoodSph(S0, a) == Sign(CurvA(S0, a)) = 1 /\ (\A o \in DOMAIN a : a[o] <= 7) /\ OrbKey(WithV(S0, a)) \in GOOD

\* automorphisms of the D-set acting on assignments
S1(S0) == [n |-> S0.n, dim |-> 2, op |-> S0.op, v |-> [i \in 1..2 |-> [d \in 1..S0.n |-> 1]]]
ClassOf(S0, auts, a) == {TLCEval([o \in DOMAIN a |-> a[<<o[1], {f[d] : d \in o[2]}>>]]) : f \in auts}
GenSets(S0) ==
  LET all == AllA(S0)
      auts == Automorphisms(S1(S0))
      base == BaseA(S0)
      baseHyp == Sign(CurvA(S0, base)) = -1
      euc == {a \in all : Sign(CurvA(S0, a)) = 0}
      hyp == IF baseHyp THEN {base} ELSE {a \in all : MinHyp(S0, a)}
      sph == {a \in all : GoodSph(S0, a)}
      cls(X) == {ClassOf(S0, auts, a) : a \in X}
  IN [euc |-> cls(euc), hyp |-> cls(hyp), sph |-> cls(sph), auts |-> auts,
      maxv |-> LET vals == UNION {{a[o] : o \in DOMAIN a} : a \in euc \cup hyp \cup sph} IN IF vals = {} THEN 0 ELSE Max(vals)]
=============================================================================

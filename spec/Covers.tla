------------------------------- MODULE Covers -------------------------------
(* k-sheeted covers of a D-symbol S (any dimension) enumerated DIRECTLY: a sheet permutation
   sigma[d,i] in Sym(k) for every facet (chamber d, index i), trivial on the facets of a spanning
   tree of the chamber graph (gauge), inverse on the two sides of a facet (hence an involution on
   mirror facets), and such that the product around every (i,j)-orbit raised to the orbit's
   branching number is the identity.  Connected covers are those whose sheet permutations act
   transitively; isomorphism over the base is simultaneous conjugation.  This counts conjugacy
   classes of subgroups of index k of the orbifold group without presentations or coset tables. *)
EXTENDS DSym
CPerms(k) == LET RECURSIVE PS(_)
                 PS(X) == IF X = {} THEN {<<>>} ELSE UNION {{<<x>> \o p : p \in PS(X \ {x})} : x \in X}
             IN PS(1..k)
CId(k) == [s \in 1..k |-> s]
CComp(p, q) == [s \in DOMAIN p |-> q[p[s]]]        \* first p then q
CInv(p) == [s \in DOMAIN p |-> CHOOSE t \in DOMAIN p : p[t] = s]
RECURSIVE CPow(_,_)
CPow(p, e) == IF e = 0 THEN [s \in DOMAIN p |-> s] ELSE CComp(p, CPow(p, e-1))
\* spanning tree of the chamber graph: the facets <<d,i>> (both sides) used by a BFS from chamber 1
RECURSIVE Tree(_,_,_,_)
Tree(S, frontier, seen, acc) == IF frontier = {} THEN acc ELSE
   LET cand == {p \in frontier \X Idx(S) : Op(S,p[2],p[1]) \notin seen}
       tgt == {Op(S,p[2],p[1]) : p \in cand}
       pick == {CHOOSE p \in cand : Op(S,p[2],p[1]) = t : t \in tgt}
   IN Tree(S, tgt, seen \cup tgt, acc \cup pick \cup {<<Op(S,p[2],p[1]), p[2]>> : p \in pick})
TreeFacets(S) == Tree(S, {1}, {1}, {})
FacetReps(S) == {f \in Chambers(S) \X Idx(S) : f[1] <= Op(S,f[2],f[1])} \ TreeFacets(S)
FacetChoices(S, k, f) == IF Op(S, f[2], f[1]) = f[1] THEN {p \in CPerms(k) : CComp(p,p) = CId(k)} ELSE CPerms(k)
Sigma(S, k, T, a, d, i) == IF <<d,i>> \in T THEN CId(k)
                           ELSE IF d <= Op(S,i,d) THEN a[<<d,i>>] ELSE CInv(a[<<Op(S,i,d), i>>])
RECURSIVE Around(_,_,_,_,_,_,_,_,_)
Around(S, k, T, a, i, j, d0, d, acc) ==
   LET d1 == Op(S,i,d)  d2 == Op(S,j,d1)
       acc2 == CComp(CComp(acc, Sigma(S,k,T,a,d,i)), Sigma(S,k,T,a,d1,j))
   IN IF d2 = d0 THEN acc2 ELSE Around(S, k, T, a, i, j, d0, d2, acc2)
OrbitOK(S, k, T, a) == \A i \in Idx(S), j \in Idx(S) : i < j => \A d \in Chambers(S) :
                          CPow(Around(S,k,T,a,i,j,d,d,CId(k)), VV(S,i,j,d)) = CId(k)
RECURSIVE SheetOrbit(_,_,_,_,_,_)
SheetOrbit(S, k, T, a, frontier, seen) == IF frontier = {} THEN seen ELSE
   LET nxt == {Sigma(S,k,T,a,d,i)[s] : s \in frontier, d \in Chambers(S), i \in Idx(S)} \ seen
   IN SheetOrbit(S, k, T, a, nxt, seen \cup nxt)
ConnectedCover(S, k, T, a) == SheetOrbit(S, k, T, a, {1}, {1}) = 1..k
\* assignments built facet by facet (choices restricted per facet before the global conditions)
RECURSIVE Build(_,_,_,_)
Build(S, k, todo, acc) == IF todo = {} THEN {acc} ELSE
   LET f == CHOOSE x \in todo : TRUE IN
   UNION {Build(S, k, todo \ {f}, TLCEval([x \in (DOMAIN acc) \cup {f} |-> IF x = f THEN p ELSE acc[x]])) : p \in FacetChoices(S, k, f)}
Assignments(S, k) == LET T == TreeFacets(S) IN
   {a \in Build(S, k, FacetReps(S), <<>>) : OrbitOK(S,k,T,a) /\ ConnectedCover(S,k,T,a)}
CConj(a, t) == TLCEval([f \in DOMAIN a |-> CComp(CComp(CInv(t), a[f]), t)])
RECURSIVE CountClasses(_,_,_)
CountClasses(k, rest, n) == IF rest = {} THEN n ELSE
   LET a == CHOOSE x \in rest : TRUE IN CountClasses(k, rest \ {CConj(a, t) : t \in CPerms(k)}, n + 1)
\* number of isomorphism classes (over the base) of connected k-sheeted covers of S
NumCoverClasses(S, k) == IF k = 1 THEN 1 ELSE CountClasses(k, Assignments(S, k), 0)
=============================================================================
